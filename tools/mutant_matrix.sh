#!/bin/bash
# runs the registered quick checks of the relevant properties against every seeded change; writes seeded/<id>/check_result.txt
cd /verif
# works on a scratch worktree so that /repo stays untouched while the matrix runs
export VERIF_REPO=/tmp/repo_mut
git -C /repo worktree remove --force $VERIF_REPO 2>/dev/null; git -C /repo worktree add -q --detach $VERIF_REPO HEAD || exit 2
declare -A EXTRA=( [C06-a]="C07" [C03-a]="C01" [C13-a]="C05 C20" [C10-a]="C06" [C20-a]="C05" [C01-a]="C09" [C02-a]="C13" [C01-b]="C05 C14" [C13-b]="C05" [C03-b]="C05 C13" [C04-b]="C19" [C10-b]="C06" [C12-b]="C07 C13" [C15-b]="C01" [C06-b]="C07 C04" [C09-b]="C03" [C11-b]="C04 C02" [C07-b]="C06" [C14-b]="C01 C13" [C20-b]="C05" [C05-c]="C10" [C13-c]="C10" [C19-c]="C06" [C04-a]="C11" [C02-c]="C05" [C12-c]="C10 C05" [C10-c]="C12" [C11-c]="C04" [C07-c]="C06" [C06-c]="C07" [C03-c]="C09 C01" [C04-c]="C19" [C20-c]="C05" )
LIST="${@:-seeded/C*-*/}"
for d in $LIST; do
  d="${d%/}/"
  id=$(basename $d); prop=${id%%-*}
  : > $d/check_result.txt
  for p in $prop ${EXTRA[$id]:-}; do
    out=$(tools/try_mutant.sh $d/patch.diff $p 2>&1)
    rc=$(echo "$out" | grep "check exit code" | sed 's/.*: //')
    echo "check $p: exit $rc" >> $d/check_result.txt
    echo "$out" | grep -A1 "^VIOLATION" | grep "obligation" | sed 's/^ *//' | cut -c1-200 | sort -u | head -6 >> $d/check_result.txt
    echo "$out" | grep -E "quick:" >> $d/check_result.txt
  done
  echo "$id done: $(grep -c 'exit 1' $d/check_result.txt) check(s) raised a violation"
done
git -C /repo worktree remove --force $VERIF_REPO
