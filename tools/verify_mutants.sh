#!/bin/bash
# usage: tools/verify_mutants.sh <incoming-dir>...   (each with patch.diff, demo.sh)
# Confirms, in one scratch worktree of /repo HEAD: baseline ctest + demo pass; with the patch: same ctest result, demo fails.
set -u
WT=/tmp/mv_wt; LOG=/var/tmp/mutverify
rm -rf $LOG; mkdir -p $LOG
git -C /repo worktree remove --force $WT 2>/dev/null; rm -rf $WT
git -C /repo worktree add -q --detach $WT HEAD || exit 2
cmake -G Ninja -S $WT -B $WT/_build -DCMAKE_BUILD_TYPE=RelWithDebInfo -DWB_ENABLE_PYTHON=OFF > $LOG/configure.log 2>&1 || cmake -G Ninja -S $WT -B $WT/_build -DCMAKE_BUILD_TYPE=RelWithDebInfo > $LOG/configure.log 2>&1
cmake --build $WT/_build -j16 > $LOG/build_base.log 2>&1 || { echo "baseline build failed"; exit 2; }
ctest --test-dir $WT/_build -j16 --timeout 900 2>&1 | grep -E "Test +#" | sed -E 's/^ *[0-9]+\/[0-9]+ //; s/ *[0-9.]+ sec.*//' | sort > $LOG/ctest_base.txt
echo "baseline: $(grep -c Passed $LOG/ctest_base.txt) passed, $(grep -vc Passed $LOG/ctest_base.txt) not passed"
for d in "$@"; do
  id=$(basename $d); p=$(realpath $d/patch.diff)
  echo "== $id"
  ( cd $d && chmod +x demo.sh && WB_BUILD_DIR= ./demo.sh $WT > $LOG/$id.demo_base.log 2>&1 ); b=$?
  if ! git -C $WT apply --check $p 2>/dev/null; then echo "$id: PATCH DOES NOT APPLY to HEAD"; continue; fi
  git -C $WT apply $p
  cmake --build $WT/_build -j16 > $LOG/$id.build.log 2>&1 || { echo "$id: build fails with patch"; git -C $WT checkout -- .; cmake --build $WT/_build -j16 >/dev/null 2>&1; continue; }
  ctest --test-dir $WT/_build -j16 --timeout 900 2>&1 | grep -E "Test +#" | sed -E 's/^ *[0-9]+\/[0-9]+ //; s/ *[0-9.]+ sec.*//' | sort > $LOG/$id.ctest.txt
  if diff -q $LOG/ctest_base.txt $LOG/$id.ctest.txt >/dev/null; then t=same; else t=DIFFERENT; fi
  ( cd $d && ./demo.sh $WT > $LOG/$id.demo_mut.log 2>&1 ); m=$?
  echo "$id: demo baseline exit $b, ctest with patch $t, demo with patch exit $m"
  git -C $WT checkout -- . ; git -C $WT clean -fdq -e _build
  cmake --build $WT/_build -j16 > /dev/null 2>&1
done
git -C /repo worktree remove --force $WT; rm -rf $WT
echo DONE
