#!/bin/sh
# usage: tools/try_mutant.sh <patch.diff> <check args...>   -- applies the patch to /repo, runs ./check, always reverts
patch="$(realpath "$1")"; shift
cd /verif || exit 2
R="${VERIF_REPO:-/repo}"
if ! git -C "$R" apply --check "$patch" 2>/dev/null; then echo "PATCH DOES NOT APPLY: $patch"; git -C "$R" apply --3way "$patch" 2>&1 | tail -3; git -C "$R" checkout -- . ; exit 3; fi
git -C "$R" apply "$patch"
./check "$@" --no-evidence; rc=$?
git -C "$R" checkout -- .
echo "check exit code: $rc"
exit $rc
