#!/bin/sh
# usage: tools/try_mutant.sh <patch.diff> <check args...>   -- applies the patch to /repo, runs ./check, always reverts
patch="$(realpath "$1")"; shift
cd /verif || exit 2
if ! git -C /repo apply --check "$patch" 2>/dev/null; then echo "PATCH DOES NOT APPLY: $patch"; git -C /repo apply --3way "$patch" 2>&1 | tail -3; git -C /repo checkout -- . ; exit 3; fi
git -C /repo apply "$patch"
./check "$@" --no-evidence; rc=$?
git -C /repo checkout -- .
echo "check exit code: $rc"
exit $rc
