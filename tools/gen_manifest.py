#!/usr/bin/env python3
"""Regenerates /verif/MANIFEST.json from the table below (kept in one place so it stays valid)."""
import json, os, sys
V = os.path.dirname(os.path.dirname(os.path.abspath(__file__)))
props = [json.loads(l) for l in open(os.path.join(V, 'properties.jsonl'))]

TB = ('Trusted base: my LLVM-IR semantics (engine/*.py), z3; clang-14 -O1 IR standing for the g++ -O2 binary (each run compares concrete IR interpretation '
      'with the native build on solver-chosen inputs of every explored path class); harness-built pre-states assume the invariants the JSON parser establishes; ')

CLAIMED = {
 'C01': dict(
   text='Bounded symbolic execution of the real World::properties (2D and 3D), properties_output_size, temperature/composition/grains and grains::unroll_into over their LLVM IR: '
        'for every request list up to the stated length, every kind/number/grain-count combination, every point/depth (bit-precise doubles for copies and comparisons) the solver shows '
        'the batched block layout equals the stand-alone answers, sizes match, single-property entry points agree, and the query writes only fresh memory. Bounded, not a proof.',
   note=TB + 'features are stubs painting uninterpreted values (real features are covered under C02); lists longer than the bound and grain counts above it are outside the claim.',
   technique='symbolic execution of clang LLVM IR + z3 (QF_BV/FP with uninterpreted non-linear FP ops), bounded request length', design='4/C01'),
 'C03': dict(
   text='Bounded symbolic execution of World::properties (2D/3D, Cartesian and spherical) with 0..2 stub features: when no feature covers the point every slot is the documented background '
        '(temperature equals Tp*exp(alpha*g*depth/cp) as an identity over the reals with exp uninterpreted; zeros and tag -1 exactly), for every request up to the bound and every point/depth '
        'including zero and negative depths; with force surface temperature every temperature entry at depth 0 is the surface temperature whatever else is requested and whether or not a feature covers the point.',
   note=TB + 'exact-real reading for the adiabat formula (rounding outside the claim); stub features; constants are symbolic members, their parsing is outside.',
   technique='symbolic execution of clang LLVM IR + z3 (QF_NRA+UF for the adiabat, FP for the forced-temperature comparison), bounded request length', design='4/C03'),
 'C16': dict(
   text='Symbolic execution of every function of wrapper_c.cc and wrapper_cpp.cc with the World constructor, destructor and query methods replaced by recording stubs: for all points, depths, '
        'property triples (lists up to 4 entries), returned vectors up to 12 values, strings up to 3 symbolic characters and null/non-null optional pointers, the solver shows every argument reaches World '
        'unchanged and in order, exactly size() returned values are copied out and nothing else is written, consecutive calls do not influence each other, and release_world destroys that object.',
   note=TB + 'World itself is stubbed here (its behaviour is C01-C15); libstdc++ out-of-line std::string members are modelled (engine/strmodel.py); Fortran/Python bindings outside.',
   technique='symbolic execution of clang LLVM IR + z3 (QF_BV/FP), recording stubs for the callee, bounded list and string lengths', design='4/C16'),
 'C09': dict(
   text='Symbolic execution of the 2D overload of World::properties with the 3D overload replaced by a recording stub returning uninterpreted values: for every cross-section origin/direction, 2D point, depth and request list '
        'up to the bound the 3D query is issued once, at the documented point (Cartesian: origin + x*direction at height z; spherical: the natural point at angle atan2(z,x), radius sqrt(x^2+z^2) pushed through the coordinate system), '
        'with depth and list unchanged; velocity blocks are projected at their true offsets and every other slot is returned unchanged; a world without cross section throws. C09.dir runs the real World constructor and World::parse_entries (Parameters API stubbed) and proves that a declared cross section makes the world 2D, is stored as declared (degrees to radians when spherical) and that the stored section direction is the unit vector from the first towards the second point.',
   note=TB + 'exact-real reading with sqrt/atan2/sin/cos uninterpreted under contract axioms; in C09.map the origin and direction are arbitrary symbolic members; what parse_entries stores there is C09.dir (JSON reading itself outside).',
   technique='symbolic execution of clang LLVM IR + z3 (QF_NRA+UF), callee replaced by a recording stub, bounded request length', design='4/C09'),
 'C02': dict(
   text='Symbolic execution of the real ContinentalPlate/OceanicPlate/MantleLayer::properties and of World::properties\' fold over features: with the extent predicates replaced by arbitrary Booleans/values and models by '
        'uninterpreted functions of the incoming value, the solver shows for every request up to the bound and all doubles that a non-covering feature changes no slot, a covering one changes exactly the requested slots to the chain of its models in list order '
        '(unchanged for an empty model list), the tag is the last covering feature, deleting or moving a non-covering feature changes nothing, and the operations table is bit exact.',
   note=TB + 'kernels (polygon, depth surfaces) are stubs here and are checked under C04/C11/C19; slab/fault/plume frames are covered by C06/C04.plume harnesses; velocity without velocity models is excluded by the statement.',
   technique='symbolic execution of clang LLVM IR + z3 (FP with uninterpreted models), environment stubs for geometric kernels, bounded request length', design='4/C02'),
 'C04': dict(
   text='(a) the real polygon test is proved equal to the closed winding-number definition for every triangle and (thorough) simple quadrilateral on a small integer lattice where double arithmetic is exact, plus an on-edge lemma for N<=5 and memory safety for arbitrary doubles; '
        '(b) the longitude alias rule of the spherical wrapper; (c) the extent guards of the three area features (closed depth interval, local depth surfaces, polygon fed with the natural surface position); '
        '(d) Plume::properties: bracket selection, linear interpolation of centre/axis/eccentricity, shorter-arc rotation, head half-ellipsoid, closed membership, and the ellipse formula, over the reals with libm uninterpreted.',
   note=TB + 'lattice bounds and vertex counts as listed per obligation; polygons with more than 4 vertices only through the on-edge lemma; rounding at non-representable boundaries is outside.',
   technique='symbolic execution of clang LLVM IR + z3 (QF_NRA on integer lattices, FP for guards), oracle = textbook definition executed symbolically alongside', design='4/C04'),
 'C05': dict(
   text='Each listed model object is built by its real constructor and real parse_entries() (fed by a stub of the JSON layer delivering arbitrary schema-typed values, so parse-time sentinel handling is included) and its query method is executed symbolically; '
        'the result is proved equal to the documented closed form over the reals (libm as uninterpreted functions shared by code and oracle) for all parameter values, all four operations, inside and outside the model\'s own range, constant and variable depth surfaces: '
        'uniform/linear/adiabatic/Chapman temperature, half-space, plate and constant-age plate cooling (100 terms, term by term), uniform composition, uniform raw velocity, uniform grains for the area-feature families; ridge distance / spreading velocity selection.',
   note=TB + 'exact-real reading (rounding outside the claim); the model table in obligations/C05.py lists what is covered - models not listed there (slab/fault/plume families are being added) are not covered; ridge function: one ridge, 1 segment quick / 2 thorough.',
   technique='symbolic execution of clang LLVM IR + z3 (QF_NRA + uninterpreted libm with contract axioms), stubbed JSON layer', design='4/C05'),
 'C20': dict(
   text='For the half-space cooling model and the linear models of the three area-feature families the solver proves, over the reals with erfc/sqrt/exp uninterpreted under sign, range and monotonicity axioms: '
        'top <= T <= bottom for ordered end members under replace, T rises with depth and falls with age (two-copy query on one model object), and the prescribed temperatures are attained at the model\'s own top (and bottom, linear).',
   note=TB + 'plate-model Fourier sums and the mass-conserving / slab plate-model envelopes are NOT covered (they need real analysis beyond contract axioms, DESIGN.md section 4 C20); rounding outside the claim.',
   technique='symbolic execution of clang LLVM IR + z3 (QF_NRA + uninterpreted erfc/sqrt/exp with monotonicity instances)', design='4/C20'),
 'C06': dict(
   text='Narrowed scope (the planar-construction geometry itself is not decidable with the installed solvers, see level_note): with the geometric kernel replaced by a stub returning an arbitrary result, the real SubductingPlate/Fault::properties are proved to paint exactly the points whose signed distance lies within the bilinearly interpolated top truncation/thickness '
        '(fault: half thickness either side), whose along-surface distance lies within the interpolated length and whose depth lies in [min depth, max depth]; and distance_to_feature_plane is proved to call the kernel with the same start radius, reference point and tables and to return its two distances unchanged.',
   note=TB + 'NOT covered: that distance_point_from_curved_planes equals the straight-trench planar construction (150x10 Newton/line-search iterations, acos/tan/sin/cos: no contract-axiom reading decides it; DESIGN.md 4/C06). For faults the trace itself (along-surface distance exactly 0) is not asserted; the fault public query passes only_positive=false (signed distance) which is accepted.',
   technique='symbolic execution of clang LLVM IR + z3 (QF_NRA), kernel and models replaced by environment stubs, 2-3 sections x 1-2 segments', design='4/C06'),
 'C07': dict(
   text='Bounding boxes: every point within the closed box is accepted (all finite doubles bit-precisely for the default tolerance, and over the reals for any tolerance >= 0), the spherical wrapper is the disjunction over the two longitude aliases, extend() moves both corners. '
        'Slab/fault pre-filter (depth cut-off and buffered bounding box): under the planar-construction contract on the kernel result (a member lies at most d_along+|d_perp| below min depth and sideways of its trench foot) no point satisfying the membership definition is discarded, for every table within the bound. The real parse_entries() of both features (driven through the Parameters stub) is proved to establish the invariant that lemma assumes: the stored maxima dominate both ends of every segment and every total length, and the Cartesian bounding box contains the coordinates extended by thickness + length. The min/max pre-test before depth surfaces is covered by C11.bound.',
   note=TB + 'the spherical buffer (2*pi*buffer/radius, 1/cos(lat) scaling) is NOT covered - its adequacy is a geometric heuristic, not an invariant; curved trenches are outside. Section overrides in parse_entries are covered by C07.bounds.sections (same invariant re-proved with 1-2 overrides).',
   technique='symbolic execution of clang LLVM IR + z3 (FP bit-precise for the box, QF_NRA for the culling lemma with an environment contract)', design='4/C07'),
 'C10': dict(
   text='Interpolation half only: with kernel and per-segment models stubbed, every interpolated quantity of SubductingPlate/Fault::properties (thickness, top truncation, length handed to the models, temperature, composition, velocity) is proved equal to a + f(b-a) with a, b taken from sections cur and cur+1 only, hence convex for f in [0,1], equal to a section\'s own value at its coordinate, and independent of every other section. C10.sections proves on the real parse_entries of both features that every coordinate carries the segment values of its own section entry and the default list otherwise.',
   note=TB + 'NOT covered: inheritance of models from feature/section level to segments (implemented by copying JSON sub-trees in parameters.cc with rapidjson pointers and std::string paths - not encodable here); quaternion slerp of grain rotations.',
   technique='symbolic execution of clang LLVM IR + z3 (QF_NRA), 3 sections x 1-2 segments, stub models', design='4/C10'),
 'C11': dict(
   text='The real Surface constructor, kd-tree, in_triangle and local_value are executed symbolically with the Delaunay triangulator replaced by a stub returning an arbitrary valid triangulation (any vertex rotation, either diagonal) - for every non-degenerate triangle and (thorough) convex quadrilateral of a 3x3 lattice, all nodal values and all query points in the hull: '
        'a listed point gets its listed value, the interpolated depth lies between the extreme nodal values, affine nodal data are reproduced exactly whatever triangulation is chosen, a point in the hull is always found. The same-point predicate used for the corner merge (approx) is proved reflexive for all finite doubles (bit-precise) and proved not to merge distinct points.',
   note=TB + 'NOT covered: the merge of defaults and user-listed points itself (Parameters::get(name, points): rapidjson/std::string code, not encodable) - only its same-point predicate; more than 4 points; Delaunay quality; point shapes are enumerated on a lattice (concrete per case), values/query symbolic.',
   technique='symbolic execution of clang LLVM IR + z3 (QF_NRA/LRA; FP bit-precise for approx), triangulator replaced by a nondeterministic contract stub', design='4/C11'),
 'C19': dict(
   text='kd-tree: for every set of N<=3 (4 thorough) nodes with arbitrary real coordinates, the tree built by the real create_tree (incl. libstdc++ nth_element) and searched by find_closest_point(s) returns a node at the true minimum distance with the right distance; polygon test = winding-number definition on lattices (shared with C04); '
        'Bezier segments start/end at their coordinates for arbitrary control points; the spherical same-depth distance equals r*acos(clamp(p1.p2/r^2,-1,1)) for every pair of points.',
   note=TB + 'NOT covered: closest point on the Bezier curve (Newton search) and the Cartesian<->spherical round trip (inverse trigonometric identities) - no installed solver decides them; coordinates bounded by 1e8; exact-real reading.',
   technique='symbolic execution of clang LLVM IR + z3 (QF_NRA with uninterpreted sqrt/sin/cos/acos under contract axioms), brute-force definition as oracle', design='4/C19'),
 'C12': dict(
   text='Narrowed scope (byte/JSON-level parsing is not encodable, see level_note): the validation units that sit behind the JSON layer are driven symbolically - the real parse_entries() of the plume, the gaussian plume temperature, the uniform composition/raw-velocity models, the uniform grains models of the three area families (Euler-angle and rotation-matrix paths), the oceanic half-space model, the section overrides of slab and fault (arbitrary 32-bit coordinate numbers, segment counts), the spherical coordinate system and the free-form string options of the water-content and mass-conserving models, fed by a stub of the Parameters API delivering lists of every length combination within the bound and arbitrary values, '
        'followed by one query with every memory access checked: the outcome must be an exception or a memory-safe, initialised evaluation, inconsistent list lengths must be rejected, and every accepted option string must leave a defined state.',
   note=TB + 'NOT covered: "all byte strings / all JSON documents", schema validation, formatting variants (rapidjson, schema validator and std::string/iostream code cannot be encoded with the installed tools; that layer is fuzzing territory). The stub respects the schema\'s own array-size limits. One known finding (spreading-velocity list length) is listed in known_findings.jsonl.',
   technique='symbolic execution of clang LLVM IR + z3 with a nondeterministic stub of the JSON layer; memory safety checked by the executor on every path', design='4/C12'),
 'C13': dict(
   text='Narrowed to kernels and models (not whole worlds): (a) memory safety and termination for ARBITRARY doubles including NaN and infinities of the polygon test, the kd-tree construction and search, the area-feature property functions, the closed-form models and - through a harness generated from the tree - EVERY model class under features/*_models (57 classes), with every arithmetic result abstracted to an arbitrary value (sound over-approximation) and every access checked by the executor; '
        '(b) domain safety over the reals: on every explored path of the listed models and of the ellipse formula no division has a divisor that can be zero and no sqrt/acos/log argument leaves its domain, for all parameters in the schema domain.',
   note=TB + 'NOT covered: finiteness under rounding/overflow; the slab kernel and the Bezier Newton search (150x10 iterations of double arithmetic: terminate by constant loop bounds but no solver verdict on their values); degenerate geographic locations that only matter through those kernels; whole-world queries.',
   technique='symbolic execution of clang LLVM IR + z3: abstract-arithmetic FP mode for safety/termination, QF_NRA for divisor/domain queries', design='4/C13'),
 'C14': dict(
   text='Schedules are discharged by a frame argument instead of being explored: (1) the real ThreadPool::parallel_for of gwb-grid (main.cc compiled unchanged, std::thread mapped to a slice recorder) is executed symbolically for thread counts 1..16 (1..40 thorough) against a symbolic node range: the slices handed to the threads are non-empty, pairwise disjoint, contiguous and cover exactly the range, every started thread is joined; '
        '(2) from the Clang AST of main, both node lambdas are shown (z3) to write only slots i, 3i..3i+2 of their own node and lambda-local variables, so two nodes never write the same element; (3) the query path writes only fresh memory and the caller\'s output vector: World::properties with stub features, the area-feature property functions (C02 harness), and EVERY model class found under features/*_models (harness generated from the tree on each run: real constructor, real parse_entries through the Parameters stub, one query with arbitrary arguments, write-set recorded). Together: no interleaving has a race and every node gets the single-thread value.',
   note=TB + 'no schedule is ever executed; purity of the slab/fault property functions themselves is not recorded (their models are); the mass-conserving model explores thousands of paths and may end UNDECIDED within the quick cap (its spline branch is excluded); the VTU writer is outside; random models are excluded by the statement.',
   technique='symbolic execution of clang LLVM IR + z3 (bit-vector slice arithmetic), Clang-AST index arithmetic + z3 (QF_LIA), write-set recording', design='4/C14'),
 'C17': dict(
   text='The index arithmetic of gwb-dat\'s main() is extracted from the Clang AST (header token emission, row value emission, request list construction, loops) and compared by z3 for ALL composition counts, grain-composition counts and grain counts with the slot the library assigns to the property each header token names (layout widths proved for the real World::properties under C01): '
        'inputs are echoed, every column under T/vx../c<n>/gs/gm[r:c]/tag prints the right slot and stays inside the vector, header and rows have the same columns, in 2D and 3D. Two genuine defects are listed as known findings.',
   note=TB.replace('my LLVM-IR semantics (engine/*.py), z3;', 'engine/astx.py (a thin reading of the Clang AST: only the statement/expression shapes it knows; anything else is an encoding error), z3;') + 'NOT covered: option parsing from "#" lines, tokenisation, number formatting, error reporting for malformed rows, the convert-spherical arithmetic (iostream/string code).',
   technique='Clang AST (JSON) -> integer index terms -> z3 (QF_NIA) equivalence with the proved library layout', design='4/C17'),
 'C18': dict(
   text='(1) filter_vtu_mesh (real code, main.cc compiled unchanged) executed symbolically on small 2D meshes with arbitrary tags, include flags and data: output cells are exactly the cells whose highest node tag is >= 0 and included, in order; every output node carries the coordinates and all data values (3 for velocity) of its source node; connectivity, offsets and types are consistent. '
        '(2) from the Clang AST of main: each data set (Temperature, velocity, Tag, Composition c) receives, at node slot i, the library value of the property its name announces for that node\'s own query, for every composition count.',
   note=TB + 'NOT covered: grid generation for box/chunk/annulus/sphere (about 900 lines of trigonometry and file I/O inside main), cell counts, Depth values, VTU serialisation (vtu11), dim 3 filtering (8 nodes per cell).',
   technique='symbolic execution of clang LLVM IR + z3 for the filter; Clang-AST index arithmetic + z3 for the node values', design='4/C18'),
 'C15': dict(
   text='With randomness modelled as an arbitrary value of its contract (uniform_real_distribution<double>::operator() specialised to a fresh u in [0,1) scaled to [a,b)), the real random-uniform-distribution grains models of the continental, oceanic and mantle-layer families (1-2 listed compositions with arbitrary labels) and the continental random composition model, built through their real parse_entries, are executed symbolically: '
        'every generated orientation satisfies R R^T = I and det R = +1 (polynomial identities over the reals with sin/cos/sqrt uninterpreted under sin^2+cos^2=1 and sqrt contracts, Ackermannised for z3\'s nlsat), normalised sizes sum to one, fixed sizes are returned as given, random compositions lie in [min,max), '
        'the number and order of draws depends only on model state and request, and the only pre-existing state the model touches is the engine - hence with a deterministic engine the answer is a function of file, seed and query history. C15.seed runs the real World constructor and parse_entries (Parameters API stubbed) with the mt19937 seeding of libstdc++ executed symbolically: for all 2^64 constructor seeds and all 2^32 file entries the 624-word engine state equals mt19937(file seed) when the entry is non-negative and mt19937(constructor seed) otherwise, and its first word is the seed (different seeds, different engines).',
   note=TB + 'NOT covered: the Mersenne Twister output stream beyond its seeding (that different engine states give different draws is a property of MT19937, not a bounded query), MPI ranks other than 0, the deflected variant and the other feature families (same code pattern, not instantiated), all-zero size draws (probability zero).',
   technique='symbolic execution of clang LLVM IR + z3 (QF_NRA after Ackermannisation of uninterpreted libm), randomness as a nondeterministic contract stub', design='4/C15'),
}
NA_DEFAULT = 'check not built yet (work in progress; see DESIGN.md section 4 for the planned obligations)'
NA = {
 'C08': 'rigid-motion invariance "up to rounding" of the whole geometry pipeline needs trigonometric identities and rounding-error bounds that no installed solver decides; two-copy non-linear kernel queries do not terminate even for triangles (DESIGN.md section 2, 5); decidable fragments (longitude alias rules, exact polygon test) are claimed under C04/C07/C19',
}
checks = []
for p in props:
    i = p['id']
    if i in CLAIMED:
        c = CLAIMED[i]
        checks.append(dict(property_id=i, quick_cmd='./check %s --tier quick' % i, thorough_cmd='./check %s --tier thorough' % i, evidence_file='evidence/%s.json' % i,
                           replay_cmd_template='./check %s --replay {path}' % i, engine='llsym',
                           level_claimed=dict(category='model_checking', text=c['text'], design_ref='DESIGN.md section ' + c['design']), level_note=c['note'], technique=c['technique']))
m = dict(version=1, setup_cmd='python3-vt -c "import z3" && clang++-14 --version >/dev/null && llvm-link-14 --version >/dev/null',
         hooks=dict(guard='GWB_VERIF', enable='no source hooks are needed: harnesses are compiled with clang -fno-access-control against /repo\'s unmodified sources', baseline_off_cmd='cmake --build /repo/_build -j16 && ctest --test-dir /repo/_build -j8 --timeout 900', source_commits=[], add_only=True),
         engines=[dict(name='llsym', path='engine/run.py', serves_properties=sorted(CLAIMED), kind_free_text='forking symbolic executor over clang-14 LLVM IR of the real sources (engine/symex.py) + z3; modes fp / fpu / real; native-vs-IR translation validation per run')],
         checks=checks,
         notes='See DESIGN.md. Exit codes of ./check: 0 = every obligation proved or undecided within caps, 1 = VIOLATION line printed, 2 = encoding error (no verdict).',
         not_applicable=[dict(property_id=p['id'], reason=NA.get(p['id'], NA_DEFAULT)) for p in props if p['id'] not in CLAIMED])
json.dump(m, open(os.path.join(V, 'MANIFEST.json'), 'w'), indent=1)
print('claimed', sorted(CLAIMED), 'not applicable', [x['property_id'] for x in m['not_applicable']])
