#include "world_builder/world.h"
#include <cstdio>
#include <fstream>
#include <cmath>
using namespace WorldBuilder;
static const char *fmt = R"({"version":"1.1","features":[{"model":"subducting plate","name":"slab","coordinates":[[0,-500e3],[0,500e3]],"dip point":[1e7,0],
 "segments":[{"length":300e3,"thickness":[100e3],"angle":[45]}],
 "temperature models":[{"model":"linear","min distance slab top":%.17g,"max distance slab top":%.17g,"top temperature":300,"bottom temperature":400}]}]})";
int main()
{
  char buf[2000]; std::snprintf(buf, sizeof buf, fmt, 0.0, 100e3);
  { std::ofstream f("a.wb"); f << buf; }
  World a("a.wb");
  const std::array<double,3> p = {{-5e3, 0, 0}}; const double depth = 10e3;
  const double d = a.distance_to_plane(p, depth, "slab").get_distance_from_surface();
  std::printf("distance from slab top at the query point: %.17g   T(regular world)=%.10g\n", d, a.temperature(p, depth));
  std::snprintf(buf, sizeof buf, fmt, d, d);
  { std::ofstream f("b.wb"); f << buf; }
  World b("b.wb");
  const double T = b.temperature(p, depth);
  std::printf("world with min = max = that distance: T = %g\n", T);
  return std::isfinite(T) ? 0 : 1;
}
