"""C11 - depth surfaces given at points are honoured, affine-exact and bounded."""
from C01 import TUS as T1
TUS = ['c11.cc'] + T1[1:] + ['kd_tree']
def ob(id, entry, mode, cases, expect, bounds, **kw):
    d = dict(id=id, harness='c11.cc', entry=entry, mode=mode, cases=cases, expect=expect, bounds=bounds, tus=TUS, native=True,
             stubs=['delaunator::Delaunator replaced (include guard) by a stub returning an arbitrary valid triangulation (any vertex rotation; 4 convex points: either diagonal) in delaunator\'s clockwise orientation', 'sqrt uninterpreted with contract axioms (kd-tree distances)'],
             assumes=['exact-real reading', 'point coordinates on the 3x3 lattice {0,1000,2000}^2 (all shapes enumerated, concrete per case)', '4 points: convex position'], outside=['the merge of defaults and user points in Parameters::get (JSON layer)', 'Delaunay quality', 'more than 4 points', 'spherical longitude alias search'])
    d.update(kw); return d
def _cr(a, b, c): return (b[0]-a[0])*(c[1]-b[1]) - (b[1]-a[1])*(c[0]-b[0])
_P = [(i % 3, i // 3) for i in range(9)]
TRI = [a + 9*b + 81*c for a in range(9) for b in range(a+1, 9) for c in range(b+1, 9) if _cr(_P[a], _P[b], _P[c]) != 0]
def _convex(q):
    s = [_cr(_P[q[i]], _P[q[(i+1) % 4]], _P[q[(i+2) % 4]]) for i in range(4)]
    return all(t > 0 for t in s) or all(t < 0 for t in s)
import itertools
QUAD = sorted(set(min(q[0] + 9*q[1] + 81*q[2] + 729*q[3] for q in [r[i:] + r[:i] for r in (p, p[::-1]) for i in range(4)]) for p in itertools.permutations(range(9), 4) if _convex(p)))
OBLIGATIONS = [
    ob('C11.same', 'h_c11_same', 'fp', [()], ['a point is recognised as the same point as itself (also with a zero coordinate)', 'points recognised as the same are within 1e4 ulp-scale relative distance', 'end'], 'all finite doubles (bit precise)', time_cap=250),
    ob('C11.node_bound', 'h_c11_surface', 'real', [(3, 0, c, 0) for c in TRI] + [(4, 0, c, 1) for c in QUAD[1:5]] + [(3, 0, c, 1) for c in TRI[:6]], ['minimum and maximum are the extrema of the nodal values', 'a point inside the hull is found in some triangle', 'at a listed point the listed value is used', 'the interpolated value lies between the smallest and largest nodal value', 'end'],
       'every non-degenerate triangle of the 3x3 lattice with spacing 1000, plus 4 convex quadrilaterals and 6 triangles with spacing 1/1024 (quick; the quadrilaterals may end undecided within the quick cap, violations found before the cap are still reported); every triangle at both spacings, every convex quadrilateral at spacing 1000 and 8 of them at spacing 1/1024 (thorough); nodal values and query point symbolic', cases_thorough=[(3, 0, c, s) for c in TRI for s in (0, 1)] + [(4, 0, c, 0) for c in QUAD] + [(4, 0, c, 1) for c in QUAD[:8]], time_cap=120),
    ob('C11.affine', 'h_c11_surface', 'real', [(3, 1, c, 0) for c in TRI] + [(3, 1, c, 1) for c in TRI[:6]], ['affine nodal data are reproduced exactly, whatever triangulation is chosen', 'end'], 'as C11.node_bound', cases_thorough=[(3, 1, c, s) for c in TRI for s in (0, 1)] + [(4, 1, c, 0) for c in QUAD] + [(4, 1, c, 1) for c in QUAD[:8]], time_cap=120),
]
# the area features must consult the surface they were given: the frame obligations (shared with C02/C04) drive ContinentalPlate / OceanicPlate / MantleLayer ::properties with
# symbolic constant/variable flags for both depth surfaces and assert that a variable min (max) depth surface is the one evaluated
import C02 as _C02
OBLIGATIONS = OBLIGATIONS + [dict(o, id=o['id'].replace('C02.frame', 'C11.use')) for o in _C02.OBLIGATIONS if o['id'].startswith('C02.frame') and not o['id'].endswith('.plume')]
# the merge of corner defaults with user-listed points: the real Parameters::get(name, points) on a programmatically built rapidjson DOM
_MERGE_TUS = ['c11_merge.cc', 'parameters'] + T1[1:]
OBLIGATIONS = OBLIGATIONS + [dict(id='C11.merge', harness='c11_merge.cc', entry='h_c11_merge', mode='real', cases=[(l, 0) for l in range(14)] + [(0, 2), (1, 1), (6, 1), (2, 1)], expect=['without a table the single value (or the documented default) is used everywhere',
    'a single value without points is used everywhere', 'the nodal table holds the polygon corners and every new listed point once', 'a listed point carries its listed value (later entries without points do not change it)', 'end'],
    bounds='3 polygon corners, 0-3 table entries in 14 layouts (entries without points, listed corners, new points, a point listed twice, two points in one entry), all values symbolic; corners concrete and well separated, new points symbolic inside boxes disjoint from the corners and from each other; Cartesian, and spherical for four layouts',
    tus=_MERGE_TUS, native=False, allow_throw=True, cflags=['-DRAPIDJSON_48BITPOINTER_OPTIMIZATION=0'], max_steps=4000000, fork_select=False,
    stubs=['the JSON document is built by the harness through the rapidjson API (no text parsing, no schema validation)', 'rapidjson compiled with RAPIDJSON_48BITPOINTER_OPTIMIZATION=0 for the symbolic run'],
    assumes=['coordinates non-zero (approx(0,0) is the known finding of C11.same)', 'distinct points are well separated'], outside=['parsing of the file, schema validation', 'coordinates that are approx-equal without being equal'])]
# global depth guards derived by parse_entries from the depth tables (all area-family model classes that own depth surfaces + the three area features; harness generated from the tree)
def _guards():
    import guard_gen
    path, ms = guard_gen.generate()
    n = len(ms) + 3
    tus = [path] + T1[1:] + ['objects/surface', 'kd_tree', 'features/feature_utilities', 'features/continental_plate', 'features/oceanic_plate', 'features/mantle_layer'] + sorted(set(m['tu'] for m in ms)) \
          + ['features/%s_models/%s/interface' % (f, k) for f in ('continental_plate', 'oceanic_plate', 'mantle_layer') for k in ('temperature', 'composition', 'grains', 'velocity')]
    return dict(id='C11.guard', harness=path, entry='h_guard', mode='real', cases=[(i,) for i in range(n)], expect=['the global min depth guard does not exceed any nodal value of the min depth table', 'the global max depth guard is not below any nodal value of the max depth table', 'checked', 'end'],
        bounds='the real parse_entries() of %d area-family model classes with depth surfaces (%s) and of ContinentalPlate / OceanicPlate / MantleLayer; table values and surface extents symbolic' % (len(ms), ', '.join('%s/%s/%s' % (m['family'], m['kind'], m['cls']) for m in ms)),
        tus=tus, native=False, allow_throw=True, fork_select=False,
        stubs=['Parameters API stub (every entry an arbitrary value of its type)', 'Objects::Surface(values at points) replaced by an interval [value - E1, value + E2] around the delivered table value (the triangulation itself is C11.same/affine/node_bound)', 'get_coordinates, add_vector_unique, get_unique_pointers stubbed (no sub-models)'],
        assumes=['E1, E2 >= 0'], outside=['what the query does with the guards (C04.guard / C02.frame / C05)'])
OBLIGATIONS = OBLIGATIONS + [_guards()]
