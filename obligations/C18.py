"""C18 - gwb-grid writes the requested mesh and the library's values at its nodes (filter + node values; grid generation is not applicable, see DESIGN.md)."""
OBLIGATIONS = [
    dict(id='C18.filter', harness='c18.cc', entry='h_c18_filter', mode='fp', cases=[(1, 4, 0), (2, 4, 0)], cases_thorough=[(1, 4, 0), (2, 4, 0), (2, 5, 1), (2, 6, 2)], time_cap=2400, tus=['c18.cc'], native=False, cflags=['-I' + __import__('build').REPO + '/include/vtu11'],
         expect=['the filtered mesh has exactly the selected cells', 'all data sets are kept', 'every data set has one entry (three for the velocity) per output node', 'cell types and offsets are consistent, cells keep their order',
                 'cells reference existing output nodes', 'every output node carries the coordinates and all data values of its source node', 'end'],
         bounds='dim 2, 1..2 cells (3 thorough) over 4..8 nodes, connectivity patterns with shared / repeated / disjoint nodes (concrete per case), tags -1..2, 5 data sets, arbitrary include flags', stubs=[], assumes=['node indices in range, tags in -1..2'],
         outside=['grid generation for box/chunk/annulus/sphere, cell counts, VTU serialisation (vtu11): not applicable, DESIGN.md 4/C18', 'dim 3 (8 nodes per cell)']),
]
def extra_checks(tier, scratch):
    import grid_astx
    return [grid_astx.check('nodes'), grid_astx.check_depth(), grid_astx.check_masks(4 if tier == 'quick' else 7), grid_astx.check_options(3 if tier == 'quick' else 8)]
