"""C04 - area features and plumes occupy exactly their declared footprint and depth range (polygon part; guards are in C02's frame harness)."""
import C02
TUS = ['c04.cc', 'utilities', 'point', 'coordinate_systems/interface', 'objects/natural_coordinate', 'world', 'grains', 'coordinate_systems/cartesian', 'coordinate_systems/spherical',
       'gravity_model/uniform', 'gravity_model/interface', 'features/interface']
def ob(id, entry, mode, cases=None, expect=None, bounds=None, **kw):
    d = dict(id=id, harness='c04.cc', entry=entry, mode=mode, cases=cases, expect=expect, bounds=bounds, tus=TUS, stubs=[],
             assumes=['polygon coordinates and query point on the integer lattice [-B,B]^2 (every intermediate is an exact integer below 2^53, so exact-real and double arithmetic coincide)',
                      'simple polygons: no repeated consecutive vertices, no self intersection'], outside=['polygons with more than 4 vertices beyond the on-edge lemma', 'non-representable boundary points'])
    d.update(kw); return d
OBLIGATIONS = [
    ob('C04.poly3', 'h_c04_poly3', 'real', [(1,), (2,)], ['polygon test equals the closed winding-number definition (triangle)', 'end'], 'triangles, lattice [-2,2]^2 (quick) / [-5,5]^2 (thorough)',
       cases_thorough=[(2,), (3,), (5,)], native=True, time_cap=1500, slicing=False),
    ob('C04.poly4', 'h_c04_poly4', 'real', [(1,)], tier='thorough', expect=['polygon test equals the closed winding-number definition (quadrilateral)', 'end'], bounds='simple quadrilaterals, lattice [-1,1]^2 (quick) / [-2,2]^2 (thorough)',
       cases_thorough=[(1,), (2,)], native=True, time_cap=2400, slicing=False),
    ob('C04.edge', 'h_c04_edge', 'real', [(3, 2), (4, 1)], ['a point on an edge is inside', 'end'], 'N<=4 vertices (quick) / N<=5 (thorough), lattice [-2,2]^2', cases_thorough=[(3, 3), (4, 2), (5, 1)], native=True, slicing=False),
    ob('C04.alias', 'h_c04_alias', 'fp', tus=['c04_alias.cc'] + TUS[1:], cases=[(0,), (1,)], expect=['Cartesian: the test is the plain polygon test of the point', 'spherical: the point itself is tested first',
       'spherical: inside iff the point or its longitude alias (+2pi if negative, else -2pi) is inside', 'end'], bounds='all doubles; polygon_contains_point_implementation replaced by a recording stub', native=False),
    ob('C04.polysafe', 'h_c04_polysafe', 'fpa', [(0,), (1,), (2,)], ['polygon test terminates without touching memory outside the list', 'end'], 'list length 0..3 (quick) / 0..4 (thorough), arbitrary doubles incl. NaN/inf',
       cases_thorough=[(0,), (1,), (2,), (3,), (4,)]),
    ob('C04.plume', 'h_c04_plume', 'real', tus=['c04_plume.cc'] + TUS[1:] + ['features/plume', 'features/feature_utilities'] + ['features/plume_models/%s/interface' % k for k in ('temperature', 'composition', 'grains', 'velocity')],
       cases=[(1,), (2,)], cases_thorough=[(1,), (2,), (3,)], native=True, div_as_mul=False,
       expect=['above min depth the plume has no effect', 'ellipse centre is the linear interpolant of the bracketing cross sections (last row below, first row in the head)', 'head: semi-major axis is b*sqrt(1-(1-f)^2)',
               'semi-major axis is the linear interpolant', 'rotation angle is the shorter-arc interpolant modulo 2 pi', 'plume contains the point iff min <= depth <= max and the relative distance is <= 1 (half-ellipsoid in the head)',
               'inside, the temperature model gets the relative distance, the incoming value and the plume\'s depth range', 'outside, nothing changes', 'end'],
       bounds='cross-section tables of 1..2 rows (quick) / 3 rows (thorough); fraction_from_ellipse_center stubbed; schema domain of the parameters',
       stubs=['fraction_from_ellipse_center -> fresh non-negative value with recorded arguments', 'sqrt/sin/cos uninterpreted with contract axioms, floor exact']),
    ob('C04.ellipse', 'h_c04_ellipse', 'real', tus=['c04_ellipse.cc'] + TUS[1:], cases=[()], expect=['relative distance from the ellipse centre is x\'^2/a^2 + y\'^2/b^2', 'end'], bounds='all finite parameters with 0<=e<1, a>0', native=True),
] + [dict(o, id=o['id'].replace('C02.frame', 'C04.guard')) for o in C02.OBLIGATIONS if o['id'].startswith('C02.frame')]
# the nodal table of a depth surface (corner defaults merged with listed points) decides the vertical extent of an area feature: same obligation as C11.merge
OBLIGATIONS = OBLIGATIONS + [dict(o, id='C04.merge') for o in __import__('C11').OBLIGATIONS if o['id'] == 'C11.merge']
# the global depth guards that parse_entries derives from the depth tables (pre-test before the depth surfaces are evaluated): same obligation as C11.guard
OBLIGATIONS = OBLIGATIONS + [dict(o, id='C04.depthguard') for o in __import__('C11').OBLIGATIONS if o['id'] == 'C11.guard']
