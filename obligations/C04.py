"""C04 - area features and plumes occupy exactly their declared footprint and depth range (polygon part; guards are in C02's frame harness)."""
import C02
TUS = ['c04.cc', 'utilities', 'point', 'coordinate_systems/interface', 'objects/natural_coordinate', 'world', 'grains', 'coordinate_systems/cartesian', 'coordinate_systems/spherical',
       'gravity_model/uniform', 'gravity_model/interface', 'features/interface']
def ob(id, entry, mode, cases=None, expect=None, bounds=None, **kw):
    d = dict(id=id, harness='c04.cc', entry=entry, mode=mode, cases=cases, expect=expect, bounds=bounds, tus=TUS, stubs=[],
             assumes=['polygon coordinates and query point on the integer lattice [-B,B]^2 (every intermediate is an exact integer below 2^53, so exact-real and double arithmetic coincide)',
                      'simple polygons: no repeated consecutive vertices, no self intersection'], outside=['polygons with more than 4 vertices beyond the on-edge lemma', 'non-representable boundary points'])
    d.update(kw); return d
OBLIGATIONS = [
    ob('C04.poly3', 'h_c04_poly3', 'real', [(1,), (2,)], ['polygon test equals the closed winding-number definition (triangle)', 'end'], 'triangles, lattice [-2,2]^2 (quick) / [-5,5]^2 (thorough)',
       cases_thorough=[(2,), (3,), (5,)], native=False, time_cap=1500, slicing=False),
    ob('C04.poly4', 'h_c04_poly4', 'real', [(1,)], tier='thorough', expect=['polygon test equals the closed winding-number definition (quadrilateral)', 'end'], bounds='simple quadrilaterals, lattice [-1,1]^2 (quick) / [-2,2]^2 (thorough)',
       cases_thorough=[(1,), (2,)], native=False, time_cap=2400, slicing=False),
    ob('C04.edge', 'h_c04_edge', 'real', [(3, 2), (4, 1)], ['a point on an edge is inside', 'end'], 'N<=4 vertices (quick) / N<=5 (thorough), lattice [-2,2]^2', cases_thorough=[(3, 3), (4, 2), (5, 1)], native=False, slicing=False),
    ob('C04.alias', 'h_c04_alias', 'fp', tus=['c04_alias.cc'] + TUS[1:], cases=[(0,), (1,)], expect=['Cartesian: the test is the plain polygon test of the point', 'spherical: the point itself is tested first',
       'spherical: inside iff the point or its longitude alias (+2pi if negative, else -2pi) is inside', 'end'], bounds='all doubles; polygon_contains_point_implementation replaced by a recording stub', native=False),
    ob('C04.polysafe', 'h_c04_polysafe', 'fpa', [(0,), (1,), (2,)], ['polygon test terminates without touching memory outside the list', 'end'], 'list length 0..3 (quick) / 0..4 (thorough), arbitrary doubles incl. NaN/inf',
       cases_thorough=[(0,), (1,), (2,), (3,), (4,)]),
] + [dict(o, id=o['id'].replace('C02.frame', 'C04.guard')) for o in C02.OBLIGATIONS if o['id'].startswith('C02.frame')]
