"""Shared AST reading of gwb-grid's main(): data-set table, request list and the two node lambdas handed to parallel_for (C14.slots, C18.nodes)."""
import os, sys, time
sys.path.insert(0, os.path.join(os.path.dirname(os.path.abspath(__file__)), '..', 'engine'))
import z3
import astx, build
from C17 import property_list, Ctx

SRC = os.path.join(build.REPO, 'source', 'gwb-grid', 'main.cc')

def lambdas(tree):
    out = []
    def scan(e):
        if not isinstance(e, tuple): return
        if e and e[0] == 'call' and e[1] == 'parallel_for':
            for a in e[2]:
                if isinstance(a, tuple) and a and a[0] == 'lambda': out.append(a[1])
        for x in e:
            if isinstance(x, tuple): scan(x)
            elif isinstance(x, list):
                for y in x: scan(y)
    scan(tree)
    return out

def lambda_body(node):
    body = [c for c in node.get('inner', []) if c.get('kind') == 'CompoundStmt']
    if not body: raise astx.AstxError('lambda without body')
    params = []
    for c in node.get('inner', []):
        if c.get('kind') == 'CXXRecordDecl':
            for m in c.get('inner', []):
                if m.get('kind') == 'CXXMethodDecl' and m.get('name') == 'operator()':
                    params = [p.get('name') for p in m.get('inner', []) if p.get('kind') == 'ParmVarDecl']
    return params, astx.walk_stmts(body[-1], None)

def stores(tr, loops, out, locals_, others):
    """collect assignments; data_set[d][k] = output[j] -> (loops, d, k, j); anything else assigned goes to `others` with its root variable"""
    k = tr[0]
    if k == 'seq':
        for c in tr[1]: stores(c, loops, out, locals_, others)
    elif k == 'for':
        locals_.add(tr[1]); stores(tr[4], loops + [(tr[1], tr[3])], out, locals_, others)
    elif k == 'if': stores(tr[2], loops, out, locals_, others); stores(tr[3], loops, out, locals_, others)
    elif k == 'decl':
        for n, v in tr[1]: locals_.add(n)
    elif k == 'expr':
        e = tr[1]
        if e[0] == 'bin' and e[1] in ('=', '+=', '-=', '*=', '/='):
            lhs, rhs = e[2], e[3]
            if lhs[0] == 'idx' and lhs[1][0] == 'idx' and lhs[1][1] == ('var', 'data_set') and e[1] == '=':
                if not (rhs[0] == 'idx' and rhs[1] == ('var', 'output')): raise astx.AstxError('data_set store with a right-hand side that is not output[..]: ' + astx.term_str(rhs))
                out.append((list(loops), lhs[1][2], lhs[2], rhs[2]))
            else:
                root = lhs
                while root[0] in ('idx', 'member'): root = root[1] if root[0] == 'idx' else root[2]
                others.append((astx.term_str(lhs), root[1] if root[0] == 'var' else '?'))
        elif e[0] == 'un' and e[1] in ('++', '--'):
            root = e[2]
            while root[0] in ('idx', 'member'): root = root[1] if root[0] == 'idx' else root[2]
            others.append((astx.term_str(e[2]), root[1] if root[0] == 'var' else '?'))
        elif e[0] == 'call' and e[1] in ('operator=', 'push_back', 'emplace_back', 'resize', 'clear', 'operator+=') and e[2]:
            root = e[2][0]
            while root[0] in ('idx', 'member'): root = root[1] if root[0] == 'idx' else root[2]
            others.append((astx.term_str(e[2][0])[:60], root[1] if root[0] == 'var' else '?'))

def check(kind):
    """kind: 'slots' (C14) or 'nodes' (C18) -> result dict"""
    t0 = time.time(); ctx = Ctx()
    r = dict(id='C14.slots' if kind == 'slots' else 'C18.nodes', case=[], verdict='PROVED', violations=[], undecided=[], stats={}, reached={}, called=['main (source/gwb-grid/main.cc, Clang AST)'], axioms=[], validated=0, validation_mismatch=[], wall=0, samples=[])
    try:
        tree = astx.main_tree(SRC, ['-I' + os.path.join(build.REPO, 'include', 'vtu11')])
        plist = property_list(tree)
        kinds = [s[1][0][1] if s[0] == 'one' else s[3][0][1] for s in plist]
        lams = lambdas(tree)
        ctx.asserts += 1
        if len(lams) != 2: raise astx.AstxError('expected the 2D and the 3D node lambda, found %d' % len(lams))
        C = z3.Int('compositions'); NP = z3.Int('n_p'); pos = [C >= 0, NP >= 1]
        # layout of the request built in main (widths proved under C01)
        off = z3.IntVal(0); where = {}
        for seg in plist:
            if seg[0] == 'one': where[seg[1][0][1]] = off; off = off + (3 if seg[1][0][1] == 5 else 1)
            else:
                where[seg[3][0][1]] = (off, seg[1]); off = off + astx.to_z3(seg[2], {'compositions': C})
        total = off
        for li, lam in enumerate(lams):
            params, body = lambda_body(lam)
            if len(params) != 1: raise astx.AstxError('node lambda with %d parameters' % len(params))
            iv = params[0]
            st = []; locs = set(params); others = []
            stores(body, [], st, locs, others)
            r['samples'].append(dict(obligation=r['id'], lambda_index=li, stores=[dict(dataset=astx.term_str(d), index=astx.term_str(k), source='output[%s]' % astx.term_str(j)) for _, d, k, j in st]))
            if kind == 'slots':
                for txt, root in others:
                    ctx.asserts += 1
                    if root not in locs: ctx.violations.append(dict(kind='assert', what='node lambda writes only its own node slots and lambda-local variables', detail='writes %s (root variable %s is captured)' % (txt, root), inputs=[], native=None))
                # injectivity: two different nodes never write the same element
                I, J = z3.Int('i'), z3.Int('j')
                for a in range(len(st)):
                    for b in range(len(st)):
                        la, da, ka, _ = st[a]; lb, db, kb, _ = st[b]
                        env_a = {'compositions': C, iv: I}; env_b = {'compositions': C, iv: J}; asm = list(pos) + [I >= 0, J >= 0, I < NP, J < NP, I != J]
                        for (v, bd) in la: x = z3.Int('a_' + v); env_a[v] = x; asm += [x >= 0, x < astx.to_z3(bd[3], env_a)]
                        for (v, bd) in lb: x = z3.Int('b_' + v); env_b[v] = x; asm += [x >= 0, x < astx.to_z3(bd[3], env_b)]
                        same = z3.And(astx.to_z3(da, env_a) == astx.to_z3(db, env_b), astx.to_z3(ka, env_a) == astx.to_z3(kb, env_b))
                        ctx.prove(z3.Not(same), asm, 'two different nodes never write the same data-set element', 'lambda %d: data_set[%s][%s] (node i) vs data_set[%s][%s] (node j)' % (li, astx.term_str(da), astx.term_str(ka), astx.term_str(db), astx.term_str(kb)),
                                  [('compositions', C), ('i', I), ('j', J)])
            else:
                # nodes: each data set receives the slot of the property its name announces, for the node's own query
                I = z3.Int('i')
                for la, d, k, j in st:
                    env = {'compositions': C, iv: I}; asm = list(pos) + [I >= 0, I < NP]
                    for (v, bd) in la: x = z3.Int('l_' + v); env[v] = x; asm += [x >= 0, x < astx.to_z3(bd[3], env)]
                    D, K_, J_ = astx.to_z3(d, env), astx.to_z3(k, env), astx.to_z3(j, env)
                    # data set table: 0 Depth, 1 Temperature, 2 velocity (3 components), 3 Tag, 4+c Composition c
                    cvar = z3.Int('c_of_dataset')
                    exp = z3.If(D == 1, where[1], z3.If(D == 2, where[5] + (K_ - 3 * I), z3.If(D == 3, where[4], where[2][0] + (D - 4))))
                    okidx = z3.If(D == 2, z3.And(K_ >= 3 * I, K_ <= 3 * I + 2), K_ == I)
                    ctx.prove(z3.And(D >= 1, D < 4 + C), asm, 'node values go to an existing data set', astx.term_str(d), [('compositions', C), ('i', I)])
                    ctx.prove(okidx, asm, 'node i writes slot i (3i..3i+2 for the velocity) of the data set', 'data_set[%s][%s]' % (astx.term_str(d), astx.term_str(k)), [('compositions', C), ('i', I)])
                    ctx.prove(J_ == exp, asm, 'each data set receives the library value of the property its name announces', 'data_set[%s][%s] = output[%s]; expected output[%s]' % (astx.term_str(d), astx.term_str(k), astx.term_str(j), 'layout'), [('compositions', C), ('i', I)])
                    ctx.prove(z3.And(J_ >= 0, J_ < total), asm, 'the lambda reads inside the returned vector', astx.term_str(j), [('compositions', C), ('i', I)])
        if kind == 'nodes':
            ctx.asserts += 1
            if kinds != [1, 5, 4, 2]: ctx.violations.append(dict(kind='assert', what='the request built in main is [T, velocity, tag, compositions..]', detail=str(kinds), inputs=[], native=None))
        r['violations'] = ctx.violations
        if ctx.violations: r['verdict'] = 'VIOLATED'
        for n in ctx.notes: r['undecided'].append(n)
        if ctx.notes and not ctx.violations: r['verdict'] = 'UNDECIDED'
        r['reached'] = {'__path_END': 1, 'stores compared': ctx.asserts}
    except astx.AstxError as e:
        r['verdict'] = 'ENCODING-ERROR'; r['undecided'].append(('astx', str(e)))
    r['stats'] = dict(paths=2, queries=ctx.queries, asserts=ctx.asserts, asserts_proved=ctx.asserts - len(ctx.violations), solver_s=ctx.solver_s, steps=ctx.asserts)
    r['wall'] = round(time.time() - t0, 2)
    return r

# ---------------------------------------------------------------------------------------------------------------------------
# C18.depth: the cartesian node loops of main() - every node lies inside the requested box and its 'Depth' is the distance below
# the top of the grid.  Reads the assignments grid_x/grid_y/grid_z/grid_depth[counter] = e; counter++ from the AST (local const
# declarations are substituted) and proves the relations over the reals for all bounds, cell counts and loop indices.
QUOT = {}; SIDE = []
def _real(t, env, defs, depth=0):
    if depth > 40: raise astx.AstxError('definition chain too deep')
    k = t[0]
    if k == 'int': return z3.RealVal(t[1])
    if k == 'float': return z3.RealVal(str(t[1]))
    if k == 'var':
        n = t[1]
        if n in env: v = env[n]; return z3.ToReal(v) if z3.is_int(v) else v
        if n in defs: return _real(defs[n], env, defs, depth + 1)
        raise astx.AstxError('unbound variable in a node expression: ' + n)
    if k == 'un' and t[1] == '-': return -_real(t[2], env, defs, depth + 1)
    if k == 'bin':
        if t[1] in ('+', '-', '*', '/'):
            a, b = _real(t[2], env, defs, depth + 1), _real(t[3], env, defs, depth + 1)
            if t[1] == '/':
                # quotient as a fresh real q with q*b == a (the divisors here are cell counts, assumed >= 1): keeps the queries polynomial
                key = (a.get_id(), b.get_id())
                if key not in QUOT:
                    q = z3.Real('q%d' % len(QUOT)); QUOT[key] = q; SIDE.append(q * b == a)
                return QUOT[key]
            return a + b if t[1] == '+' else a - b if t[1] == '-' else a * b
        raise astx.AstxError('operator in a node expression: ' + t[1])
    if k == 'cond': return z3.If(_bool(t[1], env, defs, depth + 1), _real(t[2], env, defs, depth + 1), _real(t[3], env, defs, depth + 1))
    raise astx.AstxError('node expression shape: ' + astx.term_str(t))

def _bool(t, env, defs, depth=0):
    if t[0] == 'bin' and t[1] in ('==', '!=', '<', '<=', '>', '>='):
        a, b = _real(t[2], env, defs, depth + 1), _real(t[3], env, defs, depth + 1)
        return {'==': a == b, '!=': a != b, '<': a < b, '<=': a <= b, '>': a > b, '>=': a >= b}[t[1]]
    if t[0] == 'var' and t[1] in env and z3.is_bool(env[t[1]]): return env[t[1]]
    if t[0] == 'int': return z3.BoolVal(bool(t[1]))
    if t[0] == 'un' and t[1] == '!': return z3.Not(_bool(t[2], env, defs, depth + 1))
    raise astx.AstxError('condition shape: ' + astx.term_str(t))

def check_depth():
    t0 = time.time(); ctx = Ctx()
    r = dict(id='C18.depth', case=[], verdict='PROVED', violations=[], undecided=[], stats={}, reached={}, called=['main (source/gwb-grid/main.cc, Clang AST): cartesian node loops'], axioms=[], validated=0, validation_mismatch=[], wall=0, samples=[])
    try:
        tree = astx.main_tree(SRC, ['-I' + os.path.join(build.REPO, 'include', 'vtu11')])
        blocks = astx.find(tree, lambda x: x[0] == 'if' and x[1][0] == 'call' and x[1][1] == 'operator==' and ('var', 'grid_type') in x[1][2] and ('str', 'cartesian') in x[1][2])
        if len(blocks) != 1: raise astx.AstxError('expected one `if (grid_type == "cartesian")` block, found %d' % len(blocks))
        R = lambda n: z3.Real(n); I = lambda n: z3.Int(n)
        base = {n: R(n) for n in ('x_min', 'x_max', 'y_min', 'y_max', 'z_min', 'z_max')}
        base.update({n: R(n) for n in ('n_cell_x', 'n_cell_y', 'n_cell_z')}); base['dim'] = I('dim')      # counts and indices as reals: integrality enters only as "i < n => i <= n-1"
        QUOT.clear(); del SIDE[:]
        base['compress_size'] = z3.Bool('compress_size')
        pre = [base['x_max'] >= base['x_min'], base['y_max'] >= base['y_min'], base['z_max'] >= base['z_min'], base['n_cell_x'] >= 1, base['n_cell_y'] >= 1, base['n_cell_z'] >= 1, z3.Or(base['dim'] == 2, base['dim'] == 3)]
        nodes = []
        def walk(tr, env, defs, asm, cur):
            k = tr[0]
            if k == 'seq':
                defs = dict(defs); cur = dict(cur)
                for c in tr[1]: walk(c, env, defs, asm, cur)
            elif k == 'decl':
                for n, v in tr[1]:
                    if v is not None and n not in ('counter',): defs[n] = v
            elif k == 'for':
                var, lo, cond, body = tr[1], tr[2], tr[3], tr[4]
                if var is None or lo is None or cond is None or cond[0] != 'bin' or cond[1] not in ('<', '<=') or cond[2] != ('var', var): return      # not a counting loop over nodes
                v = R('loop_' + var); e2 = dict(env); e2[var] = v
                try: bound = _real(cond[3], env, defs)
                except astx.AstxError: return
                a2 = asm + [v >= _real(lo, env, defs), (v <= bound - 1) if cond[1] == '<' else (v <= bound)]
                walk(body, e2, defs, a2, cur)
            elif k == 'if':
                try: c = _bool(tr[1], env, defs)
                except astx.AstxError: c = None
                walk(tr[2], env, defs, asm + ([c] if c is not None else []), dict(cur)); walk(tr[3], env, defs, asm + ([z3.Not(c)] if c is not None else []), dict(cur))
            elif k == 'expr':
                e = tr[1]
                if e[0] == 'bin' and e[1] == '=' and e[2][0] == 'idx' and e[2][1][0] == 'var' and e[2][1][1] in ('grid_x', 'grid_y', 'grid_z', 'grid_depth') and e[2][2] == ('var', 'counter'):
                    cur[e[2][1][1]] = (e[3], dict(defs))
                elif e[0] == 'un' and e[1] in ('++',) and e[2] == ('var', 'counter'):
                    if cur: nodes.append((dict(cur), dict(env), list(asm))); cur.clear()
        walk(blocks[0][2], base, {}, pre, {})
        ctx.asserts += 1
        if len(nodes) < 2: raise astx.AstxError('found %d node assignments in the cartesian block' % len(nodes))
        names = []
        for cur, env, asm in nodes:
            val = {}
            for arr, (e, defs) in cur.items(): val[arr] = _real(e, env, defs)
            desc = ', '.join('%s = %s' % (a, astx.term_str(cur[a][0])) for a in sorted(cur))
            ctx.asserts += 1
            if not all(a in val for a in ('grid_x', 'grid_z', 'grid_depth')): raise astx.AstxError('a cartesian node without recognised x, z and depth assignments: ' + desc)
            asm = asm + SIDE
            ctx.prove(val['grid_depth'] == env['z_max'] - val['grid_z'], asm, "'Depth' is the distance below the top of the grid", desc, names)
            ctx.prove(z3.And(val['grid_z'] >= env['z_min'], val['grid_z'] <= env['z_max'], val['grid_x'] >= env['x_min'], val['grid_x'] <= env['x_max']), asm, 'every node lies inside the requested box', desc, names)
            if 'grid_y' in val: ctx.prove(z3.And(val['grid_y'] >= env['y_min'], val['grid_y'] <= env['y_max']), asm, 'every node lies inside the requested box', desc, names)
        r['samples'].append(dict(obligation='C18.depth', node_assignments=len(nodes)))
        r['violations'] = ctx.violations
        if ctx.violations: r['verdict'] = 'VIOLATED'
        for n in ctx.notes: r['undecided'].append(n)
        if ctx.notes and not ctx.violations: r['verdict'] = 'UNDECIDED'
        r['reached'] = {'__path_END': 1, 'node assignments': len(nodes)}
    except astx.AstxError as e:
        r['verdict'] = 'ENCODING-ERROR'; r['undecided'].append(('astx', str(e)))
    r['stats'] = dict(paths=2, queries=ctx.queries, asserts=ctx.asserts, asserts_proved=ctx.asserts - len(ctx.violations), solver_s=ctx.solver_s, steps=ctx.asserts)
    r['wall'] = round(time.time() - t0, 2)
    return r

# ---------------------------------------------------------------------------------------------------------------------------
# C18.masks: the include masks handed to filter_vtu_mesh.  --filtered: every tag except "mantle layer"; --by-tag: one file per
# non-mantle tag whose mask selects exactly that tag.  The two blocks of main() are interpreted symbolically from the AST for
# N = 1..NMAX feature tags (loops unrolled; which tags are "mantle layer" is symbolic; mask elements are z3 Booleans, state is
# carried across loop iterations, `continue` and symbolic `if` become guards).  Unknown statements touching the mask are encoding errors.
def _mentions(t, name):
    if t == ('var', name): return True
    if isinstance(t, tuple): return any(_mentions(x, name) for x in t)
    if isinstance(t, list): return any(_mentions(x, name) for x in t)
    return False

class _MaskRun:
    def __init__(s, N):
        s.N = N; s.M = [z3.Bool('mantle_%d' % j) for j in range(N)]; s.mask = None; s.calls = []; s.skip = z3.BoolVal(False)
    def ival(s, t, env):
        if t[0] == 'int': return t[1]
        if t[0] == 'var' and t[1] in env: return env[t[1]]
        if t[0] == 'size': return s.N
        if t[0] == 'bin' and t[1] in ('+', '-'):
            a, b = s.ival(t[2], env), s.ival(t[3], env); return a + b if t[1] == '+' else a - b
        raise astx.AstxError('mask index expression: ' + astx.term_str(t))
    def cond(s, t, env):
        if t[0] == 'call' and t[1] in ('operator==', 'operator!=') and len(t[2]) == 2 and t[2][1] == ('str', 'mantle layer') and t[2][0][0] == 'idx' and _mentions(t[2][0][1], 'world') or \
           (t[0] == 'call' and t[1] in ('operator==', 'operator!=') and len(t[2]) == 2 and t[2][1] == ('str', 'mantle layer') and t[2][0][0] == 'idx' and t[2][0][1][0] == 'member' and t[2][0][1][1] == 'feature_tags'):
            j = s.ival(t[2][0][2], env)
            if not 0 <= j < s.N: raise astx.AstxError('feature_tags index %d outside 0..%d' % (j, s.N - 1))
            return s.M[j] if t[1] == 'operator==' else z3.Not(s.M[j])
        if t[0] == 'bin' and t[1] in ('<', '<=', '>', '>=', '==', '!='):
            a, b = s.ival(t[2], env), s.ival(t[3], env)
            return z3.BoolVal({'<': a < b, '<=': a <= b, '>': a > b, '>=': a >= b, '==': a == b, '!=': a != b}[t[1]])
        if t[0] == 'un' and t[1] == '!': return z3.Not(s.cond(t[2], env))
        raise astx.AstxError('condition in a mask block: ' + astx.term_str(t))
    def run(s, tr, env, guard):
        k = tr[0]; g = z3.And(guard, z3.Not(s.skip))
        if k == 'seq':
            for c in tr[1]: s.run(c, env, guard)
        elif k == 'decl':
            for n, v in tr[1]:
                if n == 'include_tag':
                    if not (v is not None and v[0] == 'list' and len(v[1]) >= 2 and v[1][0][0] == 'size' and v[1][1][0] == 'int'): raise astx.AstxError('include_tag initialiser: ' + str(v)[:120])
                    fresh = [z3.BoolVal(bool(v[1][1][1]))] * s.N
                    s.mask = fresh if s.mask is None else [z3.If(g, f, o) for f, o in zip(fresh, s.mask)]
                elif v is not None and _mentions(v, 'include_tag'): raise astx.AstxError('include_tag used in the initialiser of ' + str(n))
        elif k == 'for':
            var, lo, c, body = tr[1], tr[2], tr[3], tr[4]
            if _mentions(body, 'include_tag') or _mentions(body, 'filter_vtu_mesh') or any(True for _ in astx.find(body, lambda x: x[0] == 'expr' and x[1][0] == 'call' and x[1][1] == 'filter_vtu_mesh')):
                if var is None or lo is None or c is None or c[0] != 'bin' or c[1] != '<' or c[2] != ('var', var) or c[3][0] != 'size': raise astx.AstxError('loop over the tags has an unexpected shape')
                outer_skip = s.skip
                for i in range(s.ival(lo, env), s.N):
                    e2 = dict(env); e2[var] = i; s.skip = z3.BoolVal(False)
                    s.run(body, e2, z3.And(guard, z3.Not(outer_skip)))
                s.skip = outer_skip
        elif k == 'if':
            c = s.cond(tr[1], env) if (_mentions(tr[2], 'include_tag') or _mentions(tr[3], 'include_tag') or astx.find(tr[2], lambda x: x[0] in ('continue', 'break', 'return')) or astx.find(tr[3], lambda x: x[0] in ('continue', 'break', 'return'))) else None
            if c is None: return
            cs = z3.simplify(c)
            if not z3.is_false(cs): s.run(tr[2], env, z3.And(guard, c))
            if not z3.is_true(cs): s.run(tr[3], env, z3.And(guard, z3.Not(c)))
        elif k == 'continue': s.skip = z3.Or(s.skip, guard)
        elif k in ('break', 'return'): raise astx.AstxError('early exit in a mask block')
        elif k == 'expr':
            e = tr[1]
            if e[0] == 'call' and e[1] == 'operator=' and e[2][0][0] == 'idx' and e[2][0][1] == ('var', 'include_tag'):
                if s.mask is None: raise astx.AstxError('include_tag assigned before it is declared')
                j = s.ival(e[2][0][2], env); val = e[2][1]
                if val[0] != 'int': raise astx.AstxError('mask value: ' + astx.term_str(val))
                if not 0 <= j < s.N: raise astx.AstxError('include_tag index %d outside 0..%d' % (j, s.N - 1))
                s.mask = list(s.mask); s.mask[j] = z3.If(g, z3.BoolVal(bool(val[1])), s.mask[j])
            elif e[0] == 'call' and e[1] == 'filter_vtu_mesh':
                if len(e[2]) < 2 or e[2][1] != ('var', 'include_tag') or s.mask is None: raise astx.AstxError('filter_vtu_mesh is not called with include_tag')
                s.calls.append((g, env.get('idx'), list(s.mask)))
            elif _mentions(e, 'include_tag'): raise astx.AstxError('statement touching include_tag: ' + str(e)[:160])

def check_masks(nmax=4):
    t0 = time.time(); ctx = Ctx()
    r = dict(id='C18.masks', case=[], verdict='PROVED', violations=[], undecided=[], stats={}, reached={}, called=['main (source/gwb-grid/main.cc, Clang AST): --filtered and --by-tag blocks'], axioms=[], validated=0, validation_mismatch=[], wall=0, samples=[])
    try:
        tree = astx.main_tree(SRC, ['-I' + os.path.join(build.REPO, 'include', 'vtu11')])
        for name in ('output_filtered', 'output_by_tag'):
            blocks = astx.find(tree, lambda x: x[0] == 'if' and x[1] == ('var', name))
            if len(blocks) != 1: raise astx.AstxError('expected one `if (%s)` block, found %d' % (name, len(blocks)))
            for N in range(1, nmax + 1):
                run = _MaskRun(N); run.run(blocks[0][2], {}, z3.BoolVal(True))
                names = []
                if name == 'output_filtered':
                    ctx.asserts += 1
                    if len(run.calls) != 1: raise astx.AstxError('--filtered block: %d calls of filter_vtu_mesh recognised for %d tags (expected one)' % (len(run.calls), N))
                    g, _, mask = run.calls[0]
                    ctx.prove(z3.And(g, *[mask[j] == z3.Not(run.M[j]) for j in range(N)]), [], '--filtered keeps exactly the tags that are not "mantle layer"', '%d tags' % N, names)
                else:
                    by_idx = {}
                    for g, i, mask in run.calls: by_idx.setdefault(i, []).append((g, mask))
                    for i in range(N):
                        ctx.asserts += 1
                        if len(by_idx.get(i, [])) != 1: raise astx.AstxError('--by-tag block: %d calls of filter_vtu_mesh recognised for tag %d of %d (expected one per loop iteration)' % (len(by_idx.get(i, [])), i, N))
                        g, mask = by_idx[i][0]
                        ctx.prove(g == z3.Not(run.M[i]), [], '--by-tag writes a file for every tag that is not "mantle layer" and for no other', 'tag %d of %d' % (i, N), names)
                        ctx.prove(z3.Implies(g, z3.And(*[mask[j] == z3.BoolVal(j == i) for j in range(N)])), [], '--by-tag: the mask of file idx selects exactly tag idx', 'tag %d of %d; which tags are "mantle layer" is arbitrary' % (i, N), names)
            r['samples'].append(dict(obligation='C18.masks', block=name, tags='1..%d' % nmax))
        r['violations'] = ctx.violations
        if ctx.violations: r['verdict'] = 'VIOLATED'
        for n in ctx.notes: r['undecided'].append(n)
        if ctx.notes and not ctx.violations: r['verdict'] = 'UNDECIDED'
        r['reached'] = {'__path_END': 1, 'mask checks': ctx.asserts}
    except astx.AstxError as e:
        r['verdict'] = 'ENCODING-ERROR'; r['undecided'].append(('astx', str(e)))
    r['stats'] = dict(paths=2, queries=ctx.queries, asserts=ctx.asserts, asserts_proved=ctx.asserts - len(ctx.violations), solver_s=ctx.solver_s, steps=ctx.asserts)
    r['wall'] = round(time.time() - t0, 2)
    return r

# ---------------------------------------------------------------------------------------------------------------------------
# C18.options: the option scan of main() ("key = value" lines of the grid file) followed by the degrees-to-radians block, interpreted
# symbolically from the AST for L lines in arbitrary order: every line has a symbolic key token, a symbolic "second token is '='" flag,
# a symbolic numeric reading and a symbolic string reading of its third token, and may be empty.  Claim: whatever the order of the lines,
# each bound ends up as the LAST value listed for it (else its initial value), the four horizontal bounds scaled by PI/180 exactly when
# the finally selected grid type is spherical, chunk or annulus (bounds in degrees), z_min / z_max unscaled.
BOUNDS = ('x_min', 'x_max', 'y_min', 'y_max', 'z_min', 'z_max')
EXTRA = {'dim': 'num', 'compositions': 'num', 'vtu_output_format': 'str', 'n_cell_x': 'capped', 'n_cell_y': 'capped', 'n_cell_z': 'capped'}      # the other options: last listed value (cell counts capped by the resolution limit)
def check_options(L=3):
    t0 = time.time()
    r = dict(id='C18.options', case=[L], verdict='PROVED', violations=[], undecided=[], stats={}, reached={}, called=['main (source/gwb-grid/main.cc, Clang AST): option scan over the grid file lines and the degrees-to-radians block'], axioms=['PI is an uninterpreted positive real constant; string_to_double / string_to_unsigned_int of the third token = an arbitrary real per line'], validated=0, validation_mismatch=[], wall=0, samples=[])
    queries = 0; solver_s = 0.0; asserts = 0
    try:
        tree = astx.main_tree(SRC, ['-I' + os.path.join(build.REPO, 'include', 'vtu11')])
        ids = {}
        def sid(s): return z3.IntVal(ids.setdefault(s, len(ids)))
        PI = z3.Real('PI'); fresh = [0]
        def fb(): fresh[0] += 1; return z3.Bool('unk_%d' % fresh[0])
        tracked = set(BOUNDS) | {'grid_type'} | set(EXTRA)
        state = {v: z3.Real('init_' + v) for v in BOUNDS}; state['grid_type'] = z3.Int('init_grid_type')
        for v, kind in EXTRA.items(): state[v] = z3.Int('init_' + v) if kind == 'str' else z3.Real('init_' + v)
        ext = {}
        init = dict(state)
        # the enclosing statement list: the range-for over `data` whose body assigns grid_type
        seqs = astx.find(tree, lambda x: x[0] == 'seq' and any(c[0] == 'forrange' and c[1] == ('var', 'data') and _mentions(c[2], 'grid_type') for c in x[1]))
        if len(seqs) != 1: raise astx.AstxError('expected one option loop over `data`, found %d' % len(seqs))
        stmts = seqs[0][1]; at = [i for i, c in enumerate(stmts) if c[0] == 'forrange' and c[1] == ('var', 'data') and _mentions(c[2], 'grid_type')][0]
        def assigned(t):
            if not isinstance(t, tuple): return False
            if t and t[0] in ('bin', 'cassign') and (t[0] == 'cassign' or t[1] in ('=', '+=', '-=', '*=', '/=')) and t[2][0] == 'var' and t[2][1] in tracked: return True
            if t and t[0] == 'call' and t[1] in ('operator=', 'operator+=', 'assign', 'swap') and t[2] and t[2][0][0] == 'var' and t[2][0][1] in tracked: return True
            if t and t[0] == 'un' and t[1] in ('++', '--') and t[2][0] == 'var' and t[2][1] in tracked: return True
            return any(assigned(x) or (isinstance(x, list) and any(assigned(y) for y in x)) for x in t)
        def val(t, line, defs):
            k = t[0]
            if k == 'int' or k == 'float': return z3.RealVal(t[1])
            if k == 'var':
                if t[1] in state: return state[t[1]]
                if t[1] in defs: return defs[t[1]]
                if t[1] == 'PI': return PI
                if t[1] not in tracked and t[1] != 'line_i': return ext.setdefault(t[1], z3.Real('ext_' + t[1]))      # a value from outside the option scan (command line): arbitrary
                raise astx.AstxError('value of ' + t[1])
            if k == 'idx' and t[1] == ('var', 'line_i') and t[2] == ('int', 2) and line is not None: return line['sid']
            if k == 'call' and t[1] in ('string_to_double', 'string_to_unsigned_int', 'string_to_int') and len(t[2]) >= 1 and t[2][0] == ('idx', ('var', 'line_i'), ('int', 2)) and line is not None: return line['num']
            if k == 'call' and t[1] == 'min' and len(t[2]) == 2:
                a, b = val(t[2][0], line, defs), val(t[2][1], line, defs); return z3.If(a <= b, a, b)
            if k == 'call' and len(t[2]) == 1 and t[1] not in ('string_to_double', 'string_to_unsigned_int'):      # conversions / constructors around one value
                return val(t[2][0], line, defs)
            if k == 'bin' and t[1] in ('*', '/', '+', '-'):
                a, b = val(t[2], line, defs), val(t[3], line, defs)
                return a * b if t[1] == '*' else a / b if t[1] == '/' else a + b if t[1] == '+' else a - b
            if k == 'cond': return z3.If(cond(t[1], line, defs), val(t[2], line, defs), val(t[3], line, defs))
            raise astx.AstxError('value shape: ' + astx.term_str(t))
        def cond(t, line, defs):
            k = t[0]
            if k == 'bin' and t[1] == '&&': return z3.And(cond(t[2], line, defs), cond(t[3], line, defs))
            if k == 'bin' and t[1] == '||': return z3.Or(cond(t[2], line, defs), cond(t[3], line, defs))
            if k == 'un' and t[1] == '!': return z3.Not(cond(t[2], line, defs))
            if k == 'call' and t[1] in ('operator==', 'operator!=') and len(t[2]) == 2:
                a, b = t[2]
                if a[0] == 'str': a, b = b, a
                if b[0] == 'str':
                    c = None
                    if a == ('var', 'grid_type'): c = state['grid_type'] == sid(b[1])
                    elif line is not None and a == ('idx', ('var', 'line_i'), ('int', 0)): c = line['key'] == sid(b[1])
                    elif line is not None and a == ('idx', ('var', 'line_i'), ('int', 1)) and b[1] == '=': c = line['eq']
                    elif line is not None and a == ('idx', ('var', 'line_i'), ('int', 2)): c = line['sid'] == sid(b[1])
                    if c is not None: return c if t[1] == 'operator==' else z3.Not(c)
            if k == 'call' and t[1] == 'empty' and line is not None and t[2] == [('var', 'line_i')]: return line['empty']
            if _mentions(t, 'line_i') or any(_mentions(t, v) for v in tracked): raise astx.AstxError('condition shape: ' + astx.term_str(t))
            return fb()
        def assign(name, new, g): state[name] = z3.If(g, new, state[name]) if not z3.is_true(g) else new
        def run(tr, g, line, defs):
            """returns the guard under which execution continues after tr (continue ends the line)"""
            k = tr[0]
            if k == 'seq':
                defs = dict(defs)
                for c in tr[1]: g = run(c, g, line, defs)
                return g
            if k == 'continue': return z3.BoolVal(False)
            if k == 'if':
                if not (assigned(tr[2]) or assigned(tr[3]) or _mentions(tr[2], 'continue') or 'continue' in str(tr[2]) or 'continue' in str(tr[3])): return g
                c = cond(tr[1], line, defs)
                g1 = run(tr[2], z3.And(g, c), line, defs); g2 = run(tr[3], z3.And(g, z3.Not(c)), line, defs)
                return z3.simplify(z3.Or(g1, g2))
            if k == 'decl':
                for n, v in tr[1]:
                    if v is None: continue
                    try: defs[n] = val(v, line, defs)
                    except astx.AstxError: defs.pop(n, None)
                return g
            if k == 'expr':
                e = tr[1]
                if not assigned(e): return g
                if e[0] == 'bin' and e[1] == '=' and e[2][0] == 'var': assign(e[2][1], val(e[3], line, defs), g); return g
                if e[0] == 'call' and e[1] == 'operator=' and e[2][0][0] == 'var': assign(e[2][0][1], val(e[2][1], line, defs), g); return g
                if e[0] == 'cassign' and e[1] in ('*=', '/=', '+=', '-=') and e[2][0] == 'var':
                    a, b = state[e[2][1]], val(e[3], line, defs)
                    assign(e[2][1], a * b if e[1] == '*=' else a / b if e[1] == '/=' else a + b if e[1] == '+=' else a - b, g); return g
                raise astx.AstxError('assignment shape: ' + astx.term_str(e))
            if assigned(tr): raise astx.AstxError('statement kind %s assigns a tracked variable' % k)
            return g
        lines = [dict(key=z3.Int('key_%d' % j), eq=z3.Bool('eq_%d' % j), num=z3.Real('num_%d' % j), sid=z3.Int('str_%d' % j), empty=z3.Bool('empty_%d' % j)) for j in range(L)]
        for ln in lines: run(stmts[at][2], z3.BoolVal(True), ln, {})
        # every later statement of the same list that assigns a tracked variable (the degrees-to-radians block)
        post = 0
        for c in stmts[at + 1:]:
            if assigned(c): run(c, z3.BoolVal(True), None, {}); post += 1
        # oracle
        curved = z3.Or(*[state['grid_type'] == sid(s) for s in ('spherical', 'chunk', 'annulus')])
        def last(name, field, default):
            v = default
            for ln in lines: v = z3.If(z3.And(z3.Not(ln['empty']), ln['key'] != sid('#'), ln['key'] == sid(name), ln['eq']), ln[field], v)
            return v
        pre = [PI > 3, PI < 4]
        decl = astx.find(tree, lambda x: x[0] == 'decl' and any(n == 'grid_type' for n, v in x[1]))
        lit = []
        def strs(t):
            if isinstance(t, tuple):
                if len(t) == 2 and t[0] == 'str': lit.append(t[1])
                for x in t: strs(x)
            elif isinstance(t, list):
                for x in t: strs(x)
        if len(decl) == 1: strs(decl[0])
        if len(lit) == 1: pre.append(init['grid_type'] == sid(lit[0]))      # the declared default grid type (else: arbitrary)
        want_type = last('grid_type', 'sid', init['grid_type'])
        claims = [("the grid type is the last one listed", state['grid_type'] == want_type)]
        want_curved = z3.Or(*[want_type == sid(s) for s in ('spherical', 'chunk', 'annulus')])
        for b in BOUNDS:
            raw = last(b, 'num', init[b])
            exp = z3.If(want_curved, raw * (PI / 180), raw) if b[0] in 'xy' else raw
            listed = z3.Or(*[z3.And(z3.Not(ln['empty']), ln['key'] != sid('#'), ln['key'] == sid(b), ln['eq']) for ln in lines])      # an unlisted bound stays NaN and main() refuses to run
            claims.append(("%s is the last listed value, in radians exactly when the selected grid type takes degrees, whatever the order of the lines" % b, z3.Implies(listed, state[b] == exp)))
        loop_text = str(stmts[at][2])
        for v, kind in EXTRA.items():
            if ("'str', '%s'" % v) not in loop_text: continue      # this tree has no such option
            listed = z3.Or(*[z3.And(z3.Not(ln['empty']), ln['key'] != sid('#'), ln['key'] == sid(v), ln['eq']) for ln in lines])
            raw = last(v, 'sid' if kind == 'str' else 'num', init[v])
            if kind == 'capped':
                if len(ext) != 1: continue      # which outside value caps the cell counts is not recognisable: no claim
                cap = list(ext.values())[0]; raw = z3.If(raw <= cap, raw, cap)
            claims.append(("option %s is the last value listed for it%s, whatever the order of the lines" % (v, ' (capped by the resolution limit)' if kind == 'capped' else ''), z3.Implies(listed, state[v] == raw)))
        for what, cl in claims:
            sol = z3.Solver(); sol.set('timeout', 120000); sol.add(*pre); sol.add(z3.Not(cl))
            t = time.time(); res = sol.check(); solver_s += time.time() - t; queries += 1; asserts += 1
            if res == z3.sat:
                m = sol.model(); inv = {v: k for k, v in ids.items()}
                def tok(x):
                    i = m.eval(x, model_completion=True).as_long(); return inv.get(i, 'other%d' % i)
                desc = '; '.join('line %d: %s' % (j, '(empty)' if z3.is_true(m.eval(ln['empty'], model_completion=True)) else '%s %s <num %s | str %s>' % (tok(ln['key']), '=' if z3.is_true(m.eval(ln['eq'], model_completion=True)) else '?', m.eval(ln['num'], model_completion=True), tok(ln['sid']))) for j, ln in enumerate(lines))
                r['violations'].append(dict(kind='assert', what=what, detail='grid file lines: ' + desc + '; initial grid type: ' + tok(init['grid_type']), inputs=[('key_%d' % j, 'i64', m.eval(ln['key'], model_completion=True).as_long(), tok(ln['key'])) for j, ln in enumerate(lines)], native=None))
            elif res == z3.unknown: r['undecided'].append(('unknown', what))
        if r['violations']: r['verdict'] = 'VIOLATED'
        elif r['undecided']: r['verdict'] = 'UNDECIDED'
        # vacuity: a line can set a bound, and the post block is found
        sol = z3.Solver(); sol.add(*pre); sol.add(state['x_min'] != init['x_min'], state['grid_type'] != init['grid_type']); queries += 1
        reach = sol.check() == z3.sat
        if not reach: raise astx.AstxError('vacuous encoding: option lines cannot change x_min and grid_type')
        r['reached'] = {'__path_END': 1, 'lines': L, 'statements after the loop that assign a bound': post, 'a line can change x_min and grid_type': 1}
        r['samples'].append(dict(obligation='C18.options', lines=L, claims=len(claims), post_blocks=post))
    except astx.AstxError as e:
        r['verdict'] = 'ENCODING-ERROR'; r['undecided'].append(('astx', str(e)))
    r['stats'] = dict(paths=1, queries=queries, asserts=asserts, asserts_proved=asserts - len(r['violations']), solver_s=solver_s, steps=asserts)
    r['wall'] = round(time.time() - t0, 2)
    return r
