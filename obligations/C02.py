"""C02 - features paint in file order; only covering features matter; operations compose.  (C04.guard shares the frame harness.)"""
from C01 import TUS as T1
MODELS = ['features/%s_models/%s/interface' % (f, k) for f in ('continental_plate', 'oceanic_plate', 'mantle_layer') for k in ('temperature', 'composition', 'grains', 'velocity')]
TUS = ['c02.cc'] + T1[1:] + ['features/continental_plate', 'features/oceanic_plate', 'features/mantle_layer', 'objects/surface', 'features/feature_utilities'] + MODELS
ST = ['polygon_contains_point replaced by a fresh Boolean (its meaning is C04.poly/C19)', 'Surface::local_value replaced by a fresh value (its meaning is C11)',
      'models are stubs returning an uninterpreted function of (model id, depth, incoming value, local min/max depth)', 'feature object built in raw storage with 3 dummy coordinates']
def ob(id, entry, mode, cases, expect, bounds, **kw):
    d = dict(id=id, harness='c02.cc', entry=entry, mode=mode, cases=cases, expect=expect, bounds=bounds, tus=TUS, stubs=ST,
             assumes=['kinds 1..5, n<4, grains count <=1', 'all doubles incl. NaN/inf (bit precise)'], outside=['velocity with an empty velocity-model list (excluded by the statement)', 'the real models (C05)'])
    d.update(kw); return d
FRAME_LAB = ['polygon test is consulted whenever the depth is in the global closed range', 'polygon test receives the feature polygon and the query\'s natural surface position',
             'a feature that does not contain the point changes nothing', 'temperature is the chain of the feature\'s models in list order (unchanged without models)',
             'composition is the chain of the feature\'s models in list order (unchanged without models)', 'grains are the chain of the feature\'s models in list order (unchanged without models)',
             'tag is the feature\'s own index', 'velocity is the chain of the feature\'s velocity models', 'nothing outside the requested slots is written', 'end']
# counts = nT + 3 nC + 9 nG + 27 nV
QC = [(1, 0, 0, 0), (1, 1 + 3 + 9 + 27, 0, 0), (1, 2 + 6 + 18 + 54, 0, 0), (2, 2 + 3 + 9 + 27, 0, 0), (1, 1 + 3 + 9 + 27, 3, 0), (1, 1 + 3, 1, 1)]
TC = QC + [(2, 0, 0, 0), (2, 2 + 6 + 18 + 54, 3, 0), (2, 1 + 3 + 9 + 27, 2, 1), (3, 1 + 3 + 9 + 27, 0, 0)]
for _o in ():
    pass
OBLIGATIONS = [
    ob('C02.op', 'h_c02_op', 'fp', [()], ['replace returns the new value', 'subtract offsets the earlier value', 'end'], 'all doubles'),
    ob('C02.frame.continental', 'h_frame_continental', 'fpu', QC, FRAME_LAB, 'L<=2 entries (3 thorough), 0..2 stub models per kind, constant/variable depth surfaces, Cartesian/spherical', cases_thorough=TC),
    ob('C02.frame.oceanic', 'h_frame_oceanic', 'fpu', QC, FRAME_LAB, 'as C02.frame.continental', cases_thorough=TC),
    ob('C02.frame.mantle', 'h_frame_mantle', 'fpu', QC, FRAME_LAB, 'as C02.frame.continental', cases_thorough=TC),
    ob('C02.frame.plume', 'h_c02_plume_frame', 'fpu', [(1, 0), (1, 1 + 3 + 9 + 27), (1, 2 + 6 + 18 + 54), (2, 2 + 3 + 9 + 27)], [l for l in FRAME_LAB if not l.startswith('polygon')], 'Plume::properties with one cross section, point at or below it; L<=2 entries (3 thorough), 0..2 stub models per kind', cases_thorough=[(1, 0), (1, 1 + 3 + 9 + 27), (1, 2 + 6 + 18 + 54), (2, 2 + 3 + 9 + 27), (2, 0), (3, 1 + 3 + 9 + 27)],
       harness='c04_plume.cc', tus=['c04_plume.cc'] + T1[1:] + ['features/plume', 'features/feature_utilities'] + ['features/plume_models/%s/interface' % k for k in ('temperature', 'composition', 'grains', 'velocity')],
       stubs=['fraction_from_ellipse_center replaced by a fresh value >= 0 (its formula is C04.ellipse, the cross-section interpolation C04.plume)', 'models are stubs returning an uninterpreted function of (model id, depth, incoming value, depth range, relative distance)']),
    ob('C02.fold', 'h_c02_fold', 'fpu', [(1,), (2,)], ['answer = covering features applied to the background in file order', 'tag is that of the last covering feature (-1 if none)',
       'deleting a non-covering feature changes nothing', 'moving a non-covering feature changes nothing', 'end'], '3 combining stub features with symbolic coverage, L<=2 entries (3 thorough)', cases_thorough=[(1,), (2,), (3,)]),
]

for _o in OBLIGATIONS:
    if _o['id'].startswith('C02.frame'): _o['slicing'] = True
# "replace defined only leaves unlisted compositions untouched; replace clears them": how each family's uniform composition model applies its operation
# to listed and unlisted compositions is proved in the C05 harnesses - the same obligations are run here
import C05 as _C05
OBLIGATIONS = OBLIGATIONS + [dict(o, id=o['id'].replace('C05.', 'C02.modelop.')) for o in _C05.OBLIGATIONS if o['id'] in ('C05.area.uniformC', 'C05.line.uniformC', 'C05.plume.uniformC')]
