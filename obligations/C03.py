"""C03 - background state outside every feature; forced surface temperature."""
from C01 import TUS as T1
TUS = ['c03.cc'] + T1[1:]
ST = ['stub features with symbolic inside flag', 'exp/sqrt/atan2/sin/cos are uninterpreted functions with contract axioms (real mode)', 'World pre-state built directly']
def ob(id, entry, mode, cases, expect, bounds, **kw):
    d = dict(id=id, harness='c03.cc', entry=entry, mode=mode, cases=cases, expect=expect, bounds=bounds, tus=TUS, stubs=ST,
             assumes=['specific heat != 0', 'kinds 1..5, n<4, k<=2', 'real mode: finite inputs, exact arithmetic (rounding outside the claim)'], outside=['parsing of the constants (JSON layer)'])
    d.update(kw); return d
OBLIGATIONS = [
    ob('C03.bg', 'h_c03_bg', 'real', [(1, 0, 0, 0), (2, 1, 0, 0), (2, 2, 0, 1), (2, 1, 1, 0), (1, 1, 1, 1)],
       ['answer is long enough', 'background temperature is the adiabat', 'background composition is zero', 'background grains are zero', 'background tag is -1', 'background velocity is zero', 'end'],
       'L<=2 entries (quick) / L<=3 (thorough); 0..2 non-covering stub features; Cartesian and spherical; 2D and 3D', native=True,
       cases_thorough=[(1, 0, 0, 0), (2, 1, 0, 0), (3, 2, 0, 0), (3, 1, 0, 1), (2, 1, 1, 0), (3, 1, 1, 0), (2, 1, 1, 1)]),
    ob('C03.force', 'h_c03_force', 'fpu', [(1, 0, 0), (1, 1, 0), (2, 1, 0), (2, 2, 0), (2, 1, 1)],
       ['forced surface temperature at depth zero', 'without the flag the last covering feature decides', 'end'],
       'L<=3 entries, 0..2 stub features (covering or not), 2D and 3D; depth exactly 0 for the forced case', cases_thorough=[(1, 0, 0), (2, 2, 0), (3, 2, 0), (3, 1, 1), (4, 1, 0)]),
    ob('C03.gravity', 'h_c03_gravity', 'fp', [()], ['gravity norm is the configured magnitude', 'end'], 'all points'),
]
# "regardless of ... how the request is batched": the batching-layout obligations of C01 (every block of a batched 3D / 2D answer equals the stand-alone answer,
# with symbolic world constants incl. the force flag) are run here as well - a cursor slip in the 2D projection scales the temperature or tag slot of a batch
import C01 as _C01
OBLIGATIONS = OBLIGATIONS + [dict(o, id=o['id'].replace('C01.', 'C03.batch.')) for o in _C01.OBLIGATIONS if o['id'] in ('C01.layout3', 'C01.layout2')]
