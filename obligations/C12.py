"""C12 - malformed or inconsistent input is rejected by an exception (post-JSON validation units only; see DESIGN.md)."""
from C01 import TUS as T1
MODELS = ['features/plume', 'features/plume_models/temperature/gaussian', 'features/continental_plate_models/velocity/uniform_raw', 'features/continental_plate_models/composition/uniform', 'features/continental_plate_models/grains/uniform', 'features/oceanic_plate_models/grains/uniform', 'features/mantle_layer_models/grains/uniform', 'features/mantle_layer_models/grains/interface',
          'features/oceanic_plate_models/temperature/half_space_model', 'features/oceanic_plate_models/composition/tian2019_water_content', 'features/subducting_plate_models/composition/tian2019_water_content', 'features/subducting_plate_models/temperature/mass_conserving', 'features/subducting_plate_models/composition/interface', 'features/subducting_plate_models/temperature/interface', 'features/feature_utilities', 'objects/surface', 'kd_tree'] \
         + ['features/%s_models/%s/interface' % (f, k) for f in ('plume', 'continental_plate', 'oceanic_plate') for k in ('temperature', 'composition', 'grains', 'velocity')]
TUS = ['c12.cc'] + T1[1:] + MODELS
ST = ['Parameters API replaced by a stub delivering lists of the stated lengths and arbitrary values (JSON layer outside)', 'Interface::get_coordinates, add_vector_unique, get_unique_pointers stubbed (no sub-models)']
def ob(id, entry, cases, expect, bounds, mode='fpa', **kw):
    d = dict(id=id, harness='c12.cc', entry=entry, mode=mode, cases=cases, expect=expect, bounds=bounds, tus=TUS, stubs=ST, native=True, allow_throw=True,
             assumes=['values arbitrary doubles; every memory access of parse_entries and of one subsequent query is checked by the executor'],
             outside=['byte-level / JSON-level parsing, schema validation, formatting variants (rapidjson + std::string code: not encodable, DESIGN.md 4/C12)'])
    d.update(kw); return d
L2 = (0, 1, 2)
import C06 as _C06
SEC_EXPECT = ['a section for a coordinate that does not exist is rejected with an exception', 'a section whose number of segments differs from the default list is rejected with an exception', 'consistent sections are accepted',
              'every coordinate carries the segments of its own section, the default segment list when no section names it', 'Cartesian: the bounding box contains every coordinate extended by maximum thickness + maximum total length', 'every model a segment uses - its own or an inherited one - has been parsed', 'end', 'end-rejected']
def sec(fam, name, cases, cases_thorough, expect=SEC_EXPECT):
    return dict(id='C12.sections.' + name, harness='c07_parse.cc', entry='h_c12_sections', mode='real', cases=[(fam,) + c + (0,) for c in cases] + [(fam, 2, 1, 1, 1, 1), (fam, 2, 2, 2, 2, 1)], cases_thorough=[(fam,) + c + (mo,) for c in cases_thorough for mo in (0, 1)], expect=expect,
                bounds='2-3 coordinates, 1-2 default segments, 1-2 section overrides with ARBITRARY 32-bit coordinate numbers, 1-2 segments per override; Cartesian', tus=['c07_parse.cc'] + _C06.TUS[1:], native=False, allow_throw=True,
                stubs=['Parameters API stub: coordinates, dip point, default segment list and the overrides (coordinate number, segment values) arbitrary; no models; the stub answers the repeated visits of a section with the same values'],
                assumes=['non-negative lengths and thicknesses (schema)'], outside=['models inside section segments (model inheritance lives in Parameters::get_vector<Segment>, JSON layer)', 'spherical coordinates'], time_cap=900, fork_select=False)
SEC_Q = [(2, 1, 1, 1), (2, 1, 2, 1), (2, 1, 1, 2), (2, 2, 1, 1), (2, 2, 2, 2), (3, 1, 1, 1)]
SEC_T = SEC_Q + [(3, 1, 2, 1), (3, 2, 1, 2), (2, 2, 2, 1), (3, 2, 2, 2)]
DEFL_FAM = ['continental_plate', 'oceanic_plate', 'mantle_layer', 'fault', 'subducting_plate', 'plume']
DEFL = dict(id='C12.range.deflection', harness='c12_deflect.cc', entry='h_c12_deflection', mode='fp', cases=[(f, n) for f in range(6) for n in (1, 2)], cases_thorough=[(f, n) for f in range(6) for n in (1, 2, 3)],
            expect=['an accepted deflection lies within its documented range [0,1]', 'accepted', 'rejected', 'end'], bounds='the six "random uniform distribution deflected" grains models, 1-2 (3) compositions, every list value an arbitrary double',
            tus=['c12_deflect.cc'] + T1[1:] + ['features/%s_models/grains/random_uniform_distribution_deflected' % f for f in DEFL_FAM] + ['features/%s_models/grains/interface' % f for f in DEFL_FAM] + ['objects/surface', 'kd_tree', 'features/feature_utilities'],
            stubs=ST, native=False, allow_throw=True, assumes=['values arbitrary doubles (NaN included)'], outside=['the JSON layer'])
OBLIGATIONS = [
    DEFL,
    sec(0, 'slab', SEC_Q, SEC_T), sec(1, 'fault', SEC_Q, SEC_T),
    ob('C12.len.plume', 'h_c12_plume', [(2, 2, 2, 2, 2), (1, 1, 1, 1, 1), (2, 1, 2, 2, 2), (2, 2, 1, 2, 2), (2, 2, 2, 1, 2), (2, 2, 2, 2, 1), (1, 2, 2, 2, 2), (2, 0, 2, 2, 2), (2, 2, 0, 0, 0)],
       ['plume: consistent list lengths are accepted', 'plume: lists whose lengths differ from the number of coordinates are rejected with an exception', 'queried', 'end'], 'list lengths 0..2 (quick), 0..3 all combinations with one deviating list (thorough)',
       cases_thorough=[(c, d, a, e, r) for c in (1, 2, 3) for (d, a, e, r) in [(c, c, c, c)] + [tuple(x if i != j else y for i in range(4)) for j in range(4) for x in (c,) for y in (0, 1, 2, 3) if y != c]]),
    ob('C12.len.gaussian', 'h_c12_gaussian', [(d, t, s) for d in L2 for t in L2 for s in L2], ['gaussian: consistent list lengths are accepted', 'gaussian: depths, centerline temperatures and sigmas of different lengths are rejected with an exception', 'queried', 'end'], 'each list length 0..2'),
    ob('C12.len.velocity', 'h_c12_velocity', [(3,)], ['uniform raw velocity: a three-component vector is accepted', 'end'], 'the schema fixes the length to 3 (Array(Double,3,3)); other lengths cannot reach parse_entries'),
    ob('C12.len.composition', 'h_c12_composition', [(c, f) for c in L2 for f in L2], ['uniform composition: consistent list lengths are accepted', 'uniform composition: compositions and fractions of different lengths are rejected with an exception', 'queried', 'end'], 'each list length 0..2'),
    ob('C12.len.grains', 'h_c12_grains', [(c, r, s, f) for f in (0, 1, 2) for c in (0, 1, 2) for r in (0, 1, 2) for s in (1, 2)], ['uniform grains: lists of different lengths are rejected with an exception', 'consistent', 'queried', 'end'], 'each list length 0..2; continental / oceanic / mantle-layer families; Euler-angle and rotation-matrix input paths'),
    ob('C12.len.ridge', 'h_c12_ridge', [(1, 2, 1), (1, 2, 2), (1, 2, 3), (2, 2, 4), (2, 2, 2), (2, 2, 1)], ['half-space model: one spreading velocity or one per ridge point is accepted',
       'half-space model: a spreading-velocity list that matches neither 1 nor the number of ridge points is rejected with an exception', 'queried', 'end'], '1..2 ridges of 2 points, 0..4 spreading velocities'),
    ob('C12.opt.depthmethod', 'h_c12_depth_method', [()], ['an accepted depth method option leaves a defined, supported depth method', 'end'], 'the four option strings the schema allows for "depth method"', mode='fp'),
    ob('C12.opt.strings', 'h_c12_string_option', [(0,), (1,), (2,)], ['an accepted lithology option leaves a defined, supported lithology', 'an accepted reference model option leaves a defined, supported reference model', 'end'],
       'string options the schema leaves unrestricted: lithology (both water-content models), reference model name (mass conserving); three supported values and one unsupported each', mode='fp', native=False),
]
# a wrong marker in the segment parser makes the slab's parse_entries walk past the end of a JSON array (crash, no exception): the inheritance obligation of C10 is run here as well
import C10i as _C10i
OBLIGATIONS = OBLIGATIONS + [_C10i.inherit('C12.inherit')]
