"""C14 - concurrent queries are race-free and gwb-grid output does not depend on -j."""
from C01 import TUS as T1
import C01, C02, C05
TUS = ['c14.cc']
def ob(id, entry, cases, expect, bounds, **kw):
    d = dict(id=id, harness='c14.cc', entry=entry, mode='fp', cases=cases, expect=expect, bounds=bounds, tus=TUS, native=False, cflags=['-I' + __import__('build').REPO + '/include/vtu11', '-DWB_VERIF_NO_ZLIB'],
             stubs=['std::thread mapped (by a macro on the identifier `thread` while compiling the unchanged gwb-grid/main.cc) to a class that records the slice instead of starting a thread'],
             assumes=['node range below 2^24 (16.7 million nodes)'], outside=['the VTU writer', 'execution under a real scheduler: no schedule is ever run; race freedom follows from disjoint slices (here) + per-node slots (C14.slots) + write-set purity of the query path (C14.pure)'])
    d.update(kw); return d
OBLIGATIONS = [
    ob('C14.slices', 'h_c14_slices', [(p,) for p in (1, 2, 3, 4, 5, 7, 8, 16)], ['at most one slice per thread', 'every started thread is joined', 'the first slice starts at the first node', 'slices are non-empty', 'slices are contiguous and disjoint', 'the last slice ends at the last node', 'end'],
       'thread counts 1,2,3,4,5,7,8,16 (quick) / 1..40 (thorough), symbolic node range incl. ranges not divisible by the thread count and fewer nodes than threads', cases_thorough=[(p,) for p in range(1, 41)]),
]

def extra_checks(tier, scratch):
    import grid_astx
    return [grid_astx.check('slots')]
# C14.pure: the query path stores only to fresh memory and the caller's output vector: C01.pure (World::properties, recorded write-set)
OBLIGATIONS += [dict(o, id=o['id'].replace('C01.pure', 'C14.pure')) for o in C01.OBLIGATIONS if o['id'] == 'C01.pure']

# C14.pure.models: every model class of the tree (generated harness, see pure_gen.py) queried with arbitrary arguments writes only fresh memory
import pure_gen
_path, _ms = pure_gen.generate()
_TUS = [_path] + T1[1:] + ['objects/surface', 'kd_tree', 'features/feature_utilities', 'objects/distance_from_surface'] + sorted(set(m['tu'] for m in _ms)) \
       + sorted(set('features/%s_models/%s/interface' % (m['family'], m['kind']) for m in _ms))
_skip = [i for i, m in enumerate(_ms) if m['cls'] == 'MassConserving']       # thousands of paths: thorough tier only
OBLIGATIONS.append(dict(id='C14.pure.models', harness=_path, entry='h_pure_model', mode='fpa', cases=[(i,) for i in range(len(_ms)) if i not in _skip], cases_thorough=[(i,) for i in range(len(_ms))], expect=['end'], tus=_TUS, native=False, allow_throw=True, slicing=False, time_cap=270, time_cap_thorough=1500, eager_writes=True,
    bounds='all %d model classes found under include/world_builder/features/*_models (list regenerated from the tree on every run): %s' % (len(_ms), ', '.join('%s/%s/%s' % (m['family'], m['kind'], m['cls']) for m in _ms)),
    stubs=['Parameters API stub (every list of length 1, ridge of 2 points)', 'World::properties (recursive queries of the water-content models), calculate_ridge_distance_and_spreading and Surface::local_value return arbitrary values',
           'arithmetic results abstracted (fpa): only the write-set, memory safety and termination are claimed'],
    assumes=['random models may write the world\'s random engine (excluded from C14 by the statement)'], outside=['the slab/fault/area feature property functions themselves (C02/C06 harnesses)']))
# the non-default "apply spline" branch of the mass conserving slab temperature (thorough tier only: thousands of paths); stores are reported where they happen
OBLIGATIONS.append(dict(OBLIGATIONS[-1], id='C14.pure.spline', entry='h_pure_model_spline', cases=[], cases_thorough=[(i,) for i in _skip], expect=[], time_cap_thorough=900, writes_only=True,
    bounds='mass conserving slab temperature with "apply spline": true and 2 spline points per side; the write-set is reported at the store, so paths cut by the time cap still count; index arithmetic of the spline evaluation is over-approximated by the abstract reading, so memory reports are not claimed here (writes only)'))
