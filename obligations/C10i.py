"""C10.inherit: the real Parameters::get_vector<Segment<...>> + get_shared_pointers on a programmatically built rapidjson DOM (shared by C10, C05, C12)."""
# model inheritance of segments: the real Parameters::get_vector<Segment<...>> + get_shared_pointers on a programmatically built rapidjson DOM, parsed twice
from C01 import TUS as _T1
_IQ = [(f, fm, s0, 0, 1) for f in (0, 1) for fm in (0, 15, 5) for s0 in range(16)] + [(f, 15, s0, s1, 2) for f in (0, 1) for (s0, s1) in ((0, 15), (2, 12), (6, 9), (15, 0), (13, 2))]
_IT = [(f, fm, s0, 0, 1) for f in (0, 1) for fm in range(16) for s0 in range(16)] + [(f, fm, s0, s1, 2) for f in (0, 1) for fm in (15, 10, 0) for s0 in (0, 2, 6, 13, 15) for s1 in (0, 1, 9, 12, 15)]
def inherit(oid):
    return dict(id=oid, harness='c10_inherit.cc', entry='h_c10_inherit', mode='fp', cases=_IQ, cases_thorough=_IT, time_cap=600,
    expect=['segment geometry is read as listed (a single value stands for both ends)', 'composition models: the segment\'s own list if it has one, else the default list handed in', 'grains models: parsing the segments again gives the same answer', 'end'],
    bounds='slab and fault; 1 segment with every subset of the four model kinds listed on it x feature-level lists {none, all, temperature+grains} (thorough: every subset), and 2 segments in 5 (75) combinations; segment geometry numbers symbolic; each parse run twice on the same document',
    tus=['c10_inherit.cc', 'parameters', 'objects/segment', 'types/segment'] + _T1[1:] + ['features/%s_models/%s/interface' % (f, k) for f in ('subducting_plate', 'fault') for k in ('temperature', 'composition', 'grains', 'velocity')], native=False, allow_throw=True, cflags=['-DRAPIDJSON_48BITPOINTER_OPTIMIZATION=0'], max_steps=6000000,
    stubs=['the JSON document is built by the harness through the rapidjson API (no text parsing, no schema validation)', 'rapidjson compiled with RAPIDJSON_48BITPOINTER_OPTIMIZATION=0 for the symbolic run',
           'the eight plugin factories Interface::create(name, world) return a stub model carrying the number encoded in its name'],
    assumes=[], outside=['parsing of the file, schema validation', 'section-level defaults are represented by the default lists handed in (as SubductingPlate/Fault::parse_entries do)'])
