"""C01 - query answers are a pure function of file and query; batched layout (DESIGN.md section 4, C01)."""
TUS = ['c01.cc', 'world', 'grains', 'point', 'coordinate_systems/cartesian', 'coordinate_systems/spherical', 'coordinate_systems/interface',
       'gravity_model/uniform', 'gravity_model/interface', 'objects/natural_coordinate', 'features/interface', 'utilities']
ST = ['stub features paint U(feature,kind,n,k,slot) (uninterpreted) into the slots World hands them', 'exp() is an uninterpreted function', 'World pre-state built directly (raw storage, members set), Cartesian coordinate system, uniform gravity']
def ob(id, entry, mode, cases, expect, bounds, tier='quick', cases_thorough=None, **kw):
    d = dict(id=id, harness='c01.cc', entry=entry, mode=mode, cases=cases, expect=expect, bounds=bounds, tus=TUS, tier=tier, stubs=ST,
             assumes=['property kinds in 1..5, composition number < 4', 'finite-or-not doubles arbitrary (fp/fpu modes are bit precise on compare/copy)'],
             outside=['real features (C02.frame)', 'lists longer than the bound'])
    if cases_thorough: d['cases_thorough'] = cases_thorough
    d.update(kw); return d
LAB = ['batched size is the sum of the widths', 'announced size is the sum of the widths', 'stand-alone size', 'block equals stand-alone answer', 'end']
Q = [(1, 2, 1, 0), (2, 2, 1, 0)] + [(3, 2, 1, k0) for k0 in range(1, 6)]
T = [(1, 3, 2, 0), (2, 3, 2, 0)] + [(3, 2, 1, k0) for k0 in range(1, 6)] + [(4, 1, 1, k0) for k0 in range(1, 6)]
OBLIGATIONS = [
    ob('C01.layout3', 'h_c01_layout3', 'fpu', Q, LAB, 'L<=3 entries, grains count k<=2, 1 stub feature (quick); L<=4 with k<=2, L<=2 with k<=3 and 2 features (thorough)', cases_thorough=T),
    ob('C01.layout2', 'h_c01_layout2', 'fpu', Q, LAB, 'as C01.layout3, through the 2D entry point', cases_thorough=T),
    ob('C01.single', 'h_c01_single', 'fpu', [(0,), (1,)], ['temperature() equals the batched answer', 'composition() equals the batched answer', 'grains() sizes', 'end'], 'grains count k<=2, composition n<4; 2D and 3D'),
    ob('C01.pure', 'h_c01_pure', 'fpu', [(0, 2), (1, 2)], ['query stores only to fresh memory', 'end'], 'L=2 entries, 2 stub features; write-set recorded by the executor', cases_thorough=[(0, 3), (1, 3)]),
    ob('C01.grainsrt', 'h_c01_grains_roundtrip', 'fp', [(0, 0), (1, 0), (2, 1), (3, 2)], ['grains round trip leaves other slots alone', 'end'], 'k<=3 grains, start offset <=2'),
]

# C01.pure.models: "not on earlier queries, not on other worlds alive in the process" also needs every model query to be free of hidden state:
# the generated all-model harness (pure_gen.py, shared with C14.pure.models / C13.mem.models) records the write-set of one query per model class
def _add_models():
    import pure_gen
    path, ms = pure_gen.generate()
    tus = [path] + TUS[1:] + ['objects/surface', 'kd_tree', 'features/feature_utilities', 'objects/distance_from_surface'] + sorted(set(m['tu'] for m in ms)) \
          + sorted(set('features/%s_models/%s/interface' % (m['family'], m['kind']) for m in ms))
    skip = [i for i, m in enumerate(ms) if m['cls'] == 'MassConserving']
    OBLIGATIONS.append(dict(id='C01.pure.models', harness=path, entry='h_pure_model', mode='fpa', cases=[(i,) for i in range(len(ms)) if i not in skip], cases_thorough=[(i,) for i in range(len(ms))], expect=['end'], tus=tus,
        native=False, allow_throw=True, slicing=False, time_cap=270, eager_writes=True, bounds='every model class under include/world_builder/features/*_models (%d classes, list regenerated from the tree); one query with arbitrary arguments per class' % len(ms),
        stubs=['Parameters API stub', 'World::properties (recursive), ridge geometry, Surface::local_value and the Mersenne Twister step return arbitrary values', 'arithmetic abstracted (fpa): only the write-set is claimed'],
        assumes=['random models may write the world\'s own random engine (C15)'], outside=['slab/fault property functions']))
_add_models()
