"""C01 - query answers are a pure function of file and query; batched layout (DESIGN.md section 4, C01)."""
TUS = ['c01.cc', 'world', 'grains', 'point', 'coordinate_systems/cartesian', 'coordinate_systems/spherical', 'coordinate_systems/interface',
       'gravity_model/uniform', 'gravity_model/interface', 'objects/natural_coordinate', 'features/interface', 'utilities']
ST = ['stub features paint U(feature,kind,n,k,slot) (uninterpreted) into the slots World hands them', 'exp() is an uninterpreted function', 'World pre-state built directly (raw storage, members set), Cartesian coordinate system, uniform gravity']
def ob(id, entry, mode, cases, expect, bounds, tier='quick', cases_thorough=None, **kw):
    d = dict(id=id, harness='c01.cc', entry=entry, mode=mode, cases=cases, expect=expect, bounds=bounds, tus=TUS, tier=tier, stubs=ST,
             assumes=['property kinds in 1..5, composition number < 4', 'finite-or-not doubles arbitrary (fp/fpu modes are bit precise on compare/copy)'],
             outside=['real features (C02.frame)', 'lists longer than the bound'])
    if cases_thorough: d['cases_thorough'] = cases_thorough
    d.update(kw); return d
LAB = ['batched size is the sum of the widths', 'announced size is the sum of the widths', 'stand-alone size', 'block equals stand-alone answer', 'end']
Q = [(1, 2, 1, 0), (2, 2, 1, 0)] + [(3, 2, 1, k0) for k0 in range(1, 6)]
T = [(1, 3, 2, 0), (2, 3, 2, 0)] + [(3, 2, 1, k0) for k0 in range(1, 6)] + [(4, 1, 1, k0) for k0 in range(1, 6)]
OBLIGATIONS = [
    ob('C01.layout3', 'h_c01_layout3', 'fpu', Q, LAB, 'L<=3 entries, grains count k<=2, 1 stub feature (quick); L<=4 with k<=2, L<=2 with k<=3 and 2 features (thorough)', cases_thorough=T),
    ob('C01.layout2', 'h_c01_layout2', 'fpu', Q, LAB, 'as C01.layout3, through the 2D entry point', cases_thorough=T),
    ob('C01.single', 'h_c01_single', 'fpu', [(0,), (1,)], ['temperature() equals the batched answer', 'composition() equals the batched answer', 'grains() sizes', 'end'], 'grains count k<=2, composition n<4; 2D and 3D'),
    ob('C01.pure', 'h_c01_pure', 'fpu', [(0, 2), (1, 2)], ['query stores only to fresh memory', 'end'], 'L=2 entries, 2 stub features; write-set recorded by the executor', cases_thorough=[(0, 3), (1, 3)]),
    ob('C01.grainsrt', 'h_c01_grains_roundtrip', 'fp', [(0, 0), (1, 0), (2, 1), (3, 2)], ['grains round trip leaves other slots alone', 'end'], 'k<=3 grains, start offset <=2'),
]
