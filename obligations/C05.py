"""C05 - models documented by a closed-form expression return that expression."""
from C01 import TUS as T1
FAM = ('continental_plate', 'oceanic_plate', 'mantle_layer')
AREA_MODELS = ['features/%s_models/%s/%s' % (f, k, m) for f in FAM for (k, m) in (('temperature', 'uniform'), ('temperature', 'linear'), ('temperature', 'adiabatic'), ('composition', 'uniform'), ('velocity', 'uniform_raw'), ('grains', 'uniform'))] \
              + ['features/continental_plate_models/temperature/chapman'] + ['features/%s_models/%s/interface' % (f, k) for f in FAM for k in ('temperature', 'composition', 'grains', 'velocity')]
BASE = T1[1:] + ['objects/surface', 'kd_tree', 'features/feature_utilities']
TUS_AREA = ['c05_area.cc'] + BASE + AREA_MODELS
ST = ['Parameters API replaced by a stub delivering arbitrary schema-typed values (the JSON layer is outside)', 'Surface::local_value replaced by a fresh value for variable depth surfaces',
      'exp/erfc/sin/sqrt uninterpreted with contract axioms shared by code and oracle']
def ob(id, entry, cases, expect, bounds, tus=TUS_AREA, mode='real', **kw):
    d = dict(id=id, harness=tus[0], entry=entry, mode=mode, cases=cases, expect=expect, bounds=bounds, tus=tus, stubs=ST, native=True,
             assumes=['exact-real reading: finite inputs, rounding outside the claim', 'specific heat > 0'], outside=['rounding', 'spherical ridge geometry', 'models not in the table'])
    d.update(kw); return d
OUT = 'outside its own range the model returns the incoming value'
F3 = [(f, s) for f in range(3) for s in (0, 3)]
TUS_OCE = ['c05_oceanic.cc'] + BASE + ['features/oceanic_plate_models/temperature/%s' % m for m in ('half_space_model', 'plate_model', 'plate_model_constant_age', 'interface')]
STO = ST + ['calculate_ridge_distance_and_spreading replaced by a stub returning (spreading velocity > 0, distance >= 0); its arithmetic is C05.ridge']
LINE_MODELS = ['features/%s_models/%s' % (f, m) for f in ('subducting_plate', 'fault') for m in ('temperature/uniform', 'temperature/linear', 'temperature/adiabatic', 'composition/uniform', 'velocity/uniform_raw', 'temperature/interface', 'composition/interface', 'velocity/interface', 'grains/interface')] \
              + ['features/plume_models/%s' % m for m in ('temperature/uniform', 'temperature/gaussian', 'composition/uniform', 'velocity/uniform_raw', 'temperature/interface', 'composition/interface', 'velocity/interface', 'grains/interface')]
TUS_LINE = ['c05_line.cc'] + BASE + LINE_MODELS
OBLIGATIONS = [
    ob('C05.area.uniformT', 'h_c05_uniform_T', F3, ['uniform temperature: the configured value combined by the declared operation', OUT, 'end'], 'all parameters, 3 area families, constant and variable depth surfaces, 4 operations'),
    ob('C05.area.adiabaticT', 'h_c05_adiabatic_T', F3, ['adiabatic temperature: Tp*exp(alpha*g*depth/cp) with the model\'s constants', OUT, 'end'], 'as above'),
    ob('C05.area.adiabaticSentinel', 'h_c05_adiabatic_sentinels', [(0,), (1,), (2,)], ['negative local constants are replaced (by the non-negative global ones)', 'end'], 'all local constants incl. negative sentinels'),
    ob('C05.area.linearT', 'h_c05_linear_T', F3, ['linear temperature: linear between the local top and bottom of the model\'s range (negative end members => adiabat there)', OUT, 'end'], 'as above; feature range and model range arbitrary, layer thicker than 1e-9 m'),
    ob('C05.area.chapmanT', 'h_c05_chapman_T', [(0,), (3,)], ['Chapman geotherm: T_top + q/k z - A/(2k) z^2 from the local top (negative top temperature => adiabat there)', OUT, 'end'], 'continental plate; k>0'),
    ob('C05.area.uniformC', 'h_c05_uniform_C', [(f, s, n) for f in range(3) for (s, n) in ((0, 1), (0, 2), (3, 1))],
       ['uniform composition: a listed composition gets its fraction combined by the operation', 'uniform composition: replace clears the compositions it does not list', 'uniform composition: other operations leave unlisted compositions untouched', OUT, 'end'],
       '1..2 listed compositions (3 thorough)', cases_thorough=[(f, s, n) for f in range(3) for (s, n) in ((0, 0), (0, 1), (0, 2), (0, 3), (3, 2))]),
    ob('C05.area.uniformV', 'h_c05_uniform_V', F3, ['uniform raw velocity: the configured vector combined by the operation', OUT, 'end'], 'as above'),
    ob('C05.area.uniformG', 'h_c05_uniform_G', [(f, 0, k) for f in range(3) for k in (1, 2)], ['grain count is preserved', 'uniform grains: fixed grain sizes are returned as given', 'uniform grains: a negative size means equal shares summing to one',
       'uniform grains: every grain gets the configured orientation', 'grains untouched outside the range / for other compositions', 'end'], '1 listed composition, 1..2 grains (3 thorough)', cases_thorough=[(f, s, k) for f in range(3) for (s, k) in ((0, 1), (0, 2), (0, 3), (3, 1))]),
    ob('C05.oceanic.halfspace', 'h_c05_half_space', [(0, 0), (3, 0)], ['half-space cooling: Tb + (Tt - Tb) erfc(depth / (2 sqrt(kappa age))), age = ridge distance / spreading velocity', OUT, 'end'],
       'all parameters incl. negative bottom temperature (adiabat), constant and variable depth surfaces', tus=TUS_OCE, stubs=STO),
    ob('C05.oceanic.plate', 'h_c05_plate_model', [(0, 0), (0, 1), (3, 0), (3, 1)], ['plate model: 100-term plate cooling series with age = ridge distance / spreading velocity', 'constant-age plate model: 100-term plate cooling series with the configured age', OUT, 'end'],
       '100 series terms executed concretely, compared term by term (uninterpreted sin/exp/sqrt); constant and variable depth surfaces (the plate thickness of the formula is the model\'s max depth, the local surface value only bounds the range)', tus=TUS_OCE, stubs=STO + ['libm functions purely uninterpreted here (no axioms): the comparison is structural, term by term'], max_steps=3000000, libm_axioms=False),
    ob('C05.slab.plate', 'h_c05_slab_plate', [(0,), (1,)], ['the model query stores only to fresh memory', 'slab plate model: Tm (1 + 2 (1 - 273.15/Tm) sum over all 500 terms of (-1)^n/(n pi) exp((R - sqrt(R^2 + n^2 pi^2)) x\') sin(n pi z\'))', 'end'],
       'all 500 series terms executed and compared term by term (uninterpreted pow/exp/sin); replace operation, distances from and along the plane at least 2 eps (the protected-zero branches are outside), adiabatic heating off / on',
       tus=['c05_slabplate.cc'] + BASE + ['features/subducting_plate_models/temperature/plate_model', 'features/subducting_plate_models/temperature/interface'], stubs=ST + ['libm functions purely uninterpreted here (no axioms): the comparison is structural, term by term'], max_steps=3000000, libm_axioms=False,
       outside=['the other operations, the two protected-zero branches', 'convergence / truncation error of the series (real analysis)']),
    ob('C05.ridge', 'h_c05_ridge', [(0, 1), (1, 1)], ['distance is the Euclidean distance to the nearest point of the ridge polyline', 'distance is the smaller of the distances of the two longitude aliases\' nearest ridge points',
       'spreading velocity is interpolated at the chosen nearest ridge point (m/yr -> m/s)', 'end'], 'one ridge of 1..2 segments; Cartesian with the real distance, spherical with an uninterpreted great-circle distance (choice logic only)',
       tus=['c05_ridge.cc'] + BASE, native=False, stubs=['spherical distance_between_points_at_same_depth -> uninterpreted function of the compared point (its formula is C19.gc)'], cases_thorough=[(0, 1), (1, 1), (0, 2), (1, 2)], time_cap_thorough=900),
    ob('C05.line.uniformT', 'h_c05_line_uniform_T', [(0,), (1,)], ['the model query stores only to fresh memory', 'uniform temperature: the configured value combined by the declared operation', OUT, 'end'], 'slab and fault families, all parameters', tus=TUS_LINE),
    ob('C05.line.adiabaticT', 'h_c05_line_adiabatic_T', [(0,), (1,)], ['negative local constants are replaced by the global ones', 'adiabatic temperature: Tp*exp(alpha*g*depth/cp) with the model\'s constants', OUT, 'end'], 'slab and fault families', tus=TUS_LINE),
    ob('C05.line.linearT', 'h_c05_line_linear_T', [(0, 0), (1, 0)], ['linear temperature: linear in the distance between the model\'s two bounds (negative end members => adiabat there)', OUT, 'end'], 'slab (top/bottom) and fault (center/side) families; bounds at least 1e-9 apart', tus=TUS_LINE),
    ob('C05.line.uniformC', 'h_c05_line_uniform_C', [(0, 1), (1, 1), (0, 2), (1, 2)], ['uniform composition: a listed composition gets its fraction combined by the operation', 'uniform composition: replace clears the compositions it does not list', OUT, 'end'], '1..2 listed compositions', tus=TUS_LINE),
    ob('C05.line.smoothC', 'h_c05_line_smooth_C', [(0, 1), (1, 1), (0, 2), (1, 2)], ['smooth composition: the first fraction at the near end, the second at the far end, blended by (1 - tanh(10 (d - w/2)/w))/2', 'end'], 'slab (top/bottom fractions between min and max distance) and fault (center/side fractions over the side distance); 1..2 listed compositions; positive transition width; tanh uninterpreted', tus=TUS_LINE + ['features/subducting_plate_models/composition/smooth', 'features/fault_models/composition/smooth']),
    ob('C05.line.uniformV', 'h_c05_line_uniform_V', [(0,), (1,)], ['uniform raw velocity: the configured vector combined by the operation', OUT, 'end'], 'slab and fault families', tus=TUS_LINE),
    ob('C05.plume.uniformT', 'h_c05_plume_uniform_T', [()], ['uniform temperature: the configured value combined by the declared operation', OUT, 'end'], 'all parameters', tus=TUS_LINE),
    ob('C05.plume.gaussianT', 'h_c05_plume_gaussian_T', [(1, 0), (2, 0)], ['gaussian plume temperature: Tc * exp(-r/(2 sigma^2)) with Tc and sigma interpolated in depth (negative Tc => adiabat)', 'outside the plume the model returns the incoming value', 'end'], '1..2 depth entries (3 thorough), sigmas > 0', tus=TUS_LINE, cases_thorough=[(1, 0), (2, 0), (3, 0)]),
    ob('C05.plume.uniformC', 'h_c05_plume_uniform_C', [(1,), (2,)], ['uniform composition: a listed composition gets its fraction combined by the operation', 'uniform composition: replace clears the compositions it does not list', OUT, 'end'], '1..2 listed compositions', tus=TUS_LINE),
]
# a model only returns its documented value if the segment it was written on actually gets it: the inheritance obligation of C10 (real Parameters::get_vector<Segment>) is run here as well
import C10i as _C10i
OBLIGATIONS = OBLIGATIONS + [_C10i.inherit('C05.inherit')]
