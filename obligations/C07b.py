"""Obligations on the real parse_entries() of slab and fault (culling bounds), shared by C07 (C07.bounds.*) and C06 (C06.parse.*)."""
from C01 import TUS as T1
TUS_BOX = ['c07.cc'] + T1[1:]
def ob(id, entry, mode, cases, expect, bounds, tus=TUS_BOX, **kw):
    d = dict(id=id, harness=tus[0], entry=entry, mode=mode, cases=cases, expect=expect, bounds=bounds, tus=tus, stubs=[], assumes=['finite box corners with lower <= upper'], outside=['parse-time computation of the buffers', 'spherical buffer (1/cos(lat))', 'curved trenches'])
    d.update(kw); return d
def bounds_obs(prefix, tus_tail):
    return [
        ob(prefix + '.slab', 'h_c07_bounds_slab', 'real', [(2, 1), (2, 2), (3, 2)], ['one segment table per coordinate', 'the stored maximum thickness dominates both ends of every segment', 'total lengths are the sums of the segment lengths and the stored maximum dominates them',
       'Cartesian: the bounding box contains every coordinate extended by maximum thickness + maximum total length', 'end'], '2-3 coordinates x 1-2 default segments, no section overrides; Cartesian', tus=['c07_parse.cc'] + tus_tail, native=False,
       stubs=['Parameters API stub (coordinates, dip point, default segment list arbitrary; no models, no sections)'], assumes=['non-negative lengths and thicknesses (schema)']),
        ob(prefix + '.fault', 'h_c07_bounds_fault', 'real', [(2, 1), (2, 2), (3, 2)], ['one segment table per coordinate', 'the stored maximum thickness dominates both ends of every segment', 'total lengths are the sums of the segment lengths and the stored maximum dominates them',
       'Cartesian: the bounding box contains every coordinate extended by maximum thickness + maximum total length', 'end'], 'as C07.bounds.slab', tus=['c07_parse.cc'] + tus_tail, native=False,
       stubs=['Parameters API stub (coordinates, dip point, default segment list arbitrary; no models, no sections)'], assumes=['non-negative lengths and thicknesses (schema)']),
    ]
