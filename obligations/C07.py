"""C07 - acceleration shortcuts never change an answer."""
import C06
from C01 import TUS as T1
TUS_BOX = ['c07.cc'] + T1[1:]
def ob(id, entry, mode, cases, expect, bounds, tus=TUS_BOX, **kw):
    d = dict(id=id, harness=tus[0], entry=entry, mode=mode, cases=cases, expect=expect, bounds=bounds, tus=tus, stubs=[], assumes=['finite box corners with lower <= upper'], outside=['parse-time computation of the buffers', 'spherical buffer (1/cos(lat))', 'curved trenches'])
    d.update(kw); return d
OBLIGATIONS = [
    ob('C07.box', 'h_c07_box', 'real', [(0,), (1,)], ['a point within the closed box is inside', 'end'], 'BoundingBox<2>, all finite corners/points/tolerances >= 0; Cartesian and spherical wrapper', native=True),
    ob('C07.boxfp', 'h_c07_box_fp', 'fp', [()], ['a point within the closed box is inside (bit precise, default tolerance)', 'end'], 'bit-precise doubles, default tolerance (epsilon), finite corners', time_cap=250),
    ob('C07.alias', 'h_c07_alias', 'fpu', [()], ['spherical box test is the disjunction over the two longitude aliases', 'end'], 'all doubles (products uninterpreted)'),
    ob('C07.extend', 'h_c07_extend', 'real', [()], ['extend moves both corners outwards by the amount', 'end'], 'all finite corners and amounts', native=True),
    ob('C07.bounds.slab', 'h_c07_bounds_slab', 'real', [(2, 1), (2, 2), (3, 2)], ['one segment table per coordinate', 'the stored maximum thickness dominates both ends of every segment', 'total lengths are the sums of the segment lengths and the stored maximum dominates them',
       'Cartesian: the bounding box contains every coordinate extended by maximum thickness + maximum total length', 'end'], '2-3 coordinates x 1-2 default segments, no section overrides; Cartesian', tus=['c07_parse.cc'] + C06.TUS[1:], native=False,
       stubs=['Parameters API stub (coordinates, dip point, default segment list arbitrary; no models, no sections)'], assumes=['non-negative lengths and thicknesses (schema)']),
    ob('C07.bounds.fault', 'h_c07_bounds_fault', 'real', [(2, 1), (2, 2), (3, 2)], ['one segment table per coordinate', 'the stored maximum thickness dominates both ends of every segment', 'total lengths are the sums of the segment lengths and the stored maximum dominates them',
       'Cartesian: the bounding box contains every coordinate extended by maximum thickness + maximum total length', 'end'], 'as C07.bounds.slab', tus=['c07_parse.cc'] + C06.TUS[1:], native=False,
       stubs=['Parameters API stub (coordinates, dip point, default segment list arbitrary; no models, no sections)'], assumes=['non-negative lengths and thicknesses (schema)']),
] + C06.CUT_OBS
