"""C07 - acceleration shortcuts never change an answer."""
import C06, C07b
from C01 import TUS as T1
TUS_BOX = ['c07.cc'] + T1[1:]
def ob(id, entry, mode, cases, expect, bounds, tus=TUS_BOX, **kw):
    d = dict(id=id, harness=tus[0], entry=entry, mode=mode, cases=cases, expect=expect, bounds=bounds, tus=tus, stubs=[], assumes=['finite box corners with lower <= upper'], outside=['parse-time computation of the buffers', 'spherical buffer (1/cos(lat))', 'curved trenches'])
    d.update(kw); return d
OBLIGATIONS = [
    ob('C07.box', 'h_c07_box', 'real', [(0,), (1,)], ['a point within the closed box is inside', 'end'], 'BoundingBox<2>, all finite corners/points/tolerances >= 0; Cartesian and spherical wrapper', native=True),
    ob('C07.boxfp', 'h_c07_box_fp', 'fp', [()], ['a point within the closed box is inside (bit precise, default tolerance)', 'end'], 'bit-precise doubles, default tolerance (epsilon), finite corners', time_cap=900, qtimeout_ms=400000),
    ob('C07.alias', 'h_c07_alias', 'fpu', [()], ['spherical box test is the disjunction over the two longitude aliases', 'end'], 'all doubles (products uninterpreted)'),
    ob('C07.extend', 'h_c07_extend', 'real', [()], ['extend moves both corners outwards by the amount', 'end'], 'all finite corners and amounts', native=True),
] + C07b.bounds_obs('C07.bounds', C06.TUS[1:]) + C06.CUT_OBS + [dict(o, id=o['id'].replace('C12.sections', 'C07.bounds.sections')) for o in __import__('C12').OBLIGATIONS if o['id'].startswith('C12.sections')]
# the global depth guards that parse_entries derives from the depth tables (pre-test before the depth surfaces are evaluated): same obligation as C11.guard
OBLIGATIONS = OBLIGATIONS + [dict(o, id='C07.depthguard') for o in __import__('C11').OBLIGATIONS if o['id'] == 'C11.guard']
