"""C19 - geometric kernels agree with their brute-force definitions."""
from C01 import TUS as T1
import C04
TUS = ['c19.cc'] + T1[1:] + ['kd_tree', 'objects/bezier_curve']
def ob(id, entry, cases, expect, bounds, mode='real', **kw):
    d = dict(id=id, harness='c19.cc', entry=entry, mode=mode, cases=cases, expect=expect, bounds=bounds, tus=TUS, stubs=['sqrt/sin/cos/acos uninterpreted with contract axioms (sqrt: r>=0, r^2=x, monotone)'], native=True,
             assumes=['exact-real reading, finite inputs'], outside=['closest point on the Bezier curve (Newton search)', 'Cartesian<->spherical round trip (needs inverse trigonometric identities)', 'rounding'])
    d.update(kw); return d
OBLIGATIONS = [
    ob('C19.kd', 'h_c19_kd', [(1, 0), (2, 0), (3, 0), (2, 1), (3, 1)], ['the tree keeps all nodes and reports a valid index', 'no node is closer than the reported one', 'the reported distance is the Euclidean distance to the reported node', 'end'],
       'N<=3 nodes with arbitrary real coordinates (quick), N<=4 (thorough); tree built by the real create_tree incl. libstdc++ nth_element', cases_thorough=[(1, 0), (2, 0), (3, 0), (4, 0), (2, 1), (3, 1), (4, 1)], time_cap=270),
    ob('C19.bezier0', 'h_c19_bezier_ends', [(1,), (2,)], ['curve segment starts at its coordinate', 'curve segment ends at the next coordinate', 'end'], '1..2 curve segments, arbitrary control points'),
    ob('C19.gc', 'h_c19_great_circle', [()], ['same-depth distance is the great-circle distance r*acos(p1.p2/r^2), also beyond 90 degrees', 'end'], 'all pairs of points on the sphere, r>0', libm_axioms=False, stubs=['sin/cos/acos purely uninterpreted (no axioms): the comparison is structural']),
    ob('C19.roundtrip', 'h_c19_roundtrip', [()], ['the radius is the Euclidean norm', 'longitude lies in [-pi,pi], latitude in [-pi/2,pi/2]', 'Cartesian -> spherical -> Cartesian returns the point', 'end'], 'all points off the centre; exact reals', libm_inverse=True, native=True,
       stubs=['acos/atan2/sin/cos/sqrt uninterpreted; inverse-function contracts: cos(acos t)=t, sin(acos t)>=0 with sin^2=1-t^2, h cos(atan2(y,x))=x, h sin(atan2(y,x))=y (h=sqrt(x^2+y^2)); range contracts of acos and atan2'], outside=['the other direction (spherical -> Cartesian -> spherical needs acos(cos x)=x on [0,pi] and atan2 of scaled sin/cos: not encoded)', 'rounding']),
] + [dict(o, id=o['id'].replace('C04.', 'C19.')) for o in C04.OBLIGATIONS if o['id'] in ('C04.poly3', 'C04.poly4', 'C04.edge')]
