"""C10 - sections interpolate only between neighbours (interpolation half; JSON-level inheritance is not applicable, see DESIGN.md)."""
import C06
INTERP = [l for l in C06.MEM if 'blend' in l or 'models receive' in l or l == 'end']
OBLIGATIONS = [
    dict(C06.ob('C10.interp.slab', 'h_c06_slab', [(0, 3, 2, 1), (0, 3, 1, 1)], INTERP, '3 sections x 1-2 segments, one stub model per kind and segment; every interpolated quantity is a + f (b - a) of sections cur and cur+1 only (so other sections cannot influence it)',
                cases_thorough=[(0, 3, 2, 1), (0, 3, 1, 1), (0, 4, 2, 1), (0, 3, 2, 2)])),
    dict(C06.ob('C10.interp.fault', 'h_c06_fault', [(0, 3, 2, 1), (0, 3, 1, 1)], INTERP, 'as C10.interp.slab', cases_thorough=[(0, 3, 2, 1), (0, 3, 1, 1), (0, 4, 2, 1), (0, 3, 2, 2)])),
] + [dict(o, id=o['id'].replace('C12.sections', 'C10.sections')) for o in __import__('C12').OBLIGATIONS if o['id'].startswith('C12.sections')]
# model inheritance of segments (definition shared with C05 and C12: obligations/C10i.py)
import C10i
OBLIGATIONS = OBLIGATIONS + [C10i.inherit('C10.inherit')]
