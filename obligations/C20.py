"""C20 - cooling models stay inside their physical envelope (half-space and linear families; see DESIGN.md for the parts that are not applicable)."""
import C05
def ob(id, entry, cases, expect, bounds, tus, **kw):
    d = dict(id=id, harness=tus[0], entry=entry, mode='real', cases=cases, expect=expect, bounds=bounds, tus=tus, stubs=C05.STO, native=True,
             assumes=['exact-real reading; erfc/sqrt/exp uninterpreted with: 0<erfc<2, erfc(x)<=1 for x>=0, erfc decreasing, sqrt increasing, exp>0 (instances for the arguments occurring on the path)',
                      'physically ordered end members: 0 <= top <= bottom temperature, operation replace'], outside=['plate-model Fourier series bounds', 'mass-conserving and slab plate-model envelopes', 'rounding'])
    d.update(kw); return d
OBLIGATIONS = [
    ob('C20.halfspace.env', 'h_c05_half_space', [(0, 1), (3, 1)], ['half-space cooling stays between top and bottom temperature', 'end'], 'all parameters with ordered end members, depth >= 0', C05.TUS_OCE),
    ob('C20.halfspace.top', 'h_c05_half_space', [(0, 2)], ['half-space cooling attains the top temperature at depth zero', 'end'], 'depth 0, age > 0', C05.TUS_OCE),
    ob('C20.halfspace.mono', 'h_c20_half_space_mono', [(0,), (1,)], ['half-space cooling: temperature rises with depth', 'half-space cooling: temperature falls with lithospheric age', 'end'],
       'two evaluations of one model: same column at two depths / same depth at two ages', C05.TUS_OCE),
    ob('C20.linear.env', 'h_c20_linear', [(f, s, 0) for f in range(3) for s in (0, 3)], ['linear model stays between its two boundary temperatures', 'end'], '3 area families, constant/variable surfaces, arbitrary feature and model ranges', C05.TUS_AREA),
    ob('C20.linear.bnd', 'h_c20_linear', [(f, 0, 1) for f in range(3)], ['linear model attains the top temperature at its own top', 'linear model attains the bottom temperature at its own bottom', 'end'], 'as above', C05.TUS_AREA),
]
# plate cooling: the envelope of the 100-term series itself is not decidable with uninterpreted sin/exp, but its precondition is - the steady-state term and every
# Fourier term use ONE plate thickness (the model's max depth); mixing two length scales lets the sum leave [top, bottom].  Same obligation as C05.oceanic.plate.
OBLIGATIONS = OBLIGATIONS + [dict(o, id='C20.plate.scale') for o in C05.OBLIGATIONS if o['id'] == 'C05.oceanic.plate']
