"""C06 (membership / same arguments), C07.cut and C10.interp share the line-feature harness."""
from C01 import TUS as T1
FM = ['features/%s_models/%s/interface' % (f, k) for f in ('subducting_plate', 'fault') for k in ('temperature', 'composition', 'grains', 'velocity')]
TUS = ['c06.cc'] + T1[1:] + ['features/subducting_plate', 'features/fault', 'objects/segment', 'objects/distance_from_surface', 'objects/bezier_curve', 'features/feature_utilities', 'objects/surface', 'kd_tree'] + FM
ST = ['distance_point_from_curved_planes replaced by a stub returning an arbitrary result (section/segment indices in range, fractions in [0,1])', 'segment models are stubs returning uninterpreted functions of the incoming value and recording what they receive',
      'feature object built in raw storage; stored maxima dominate the segment tables and the bounding box is the coordinate box extended by max thickness + max total length (the invariant parse_entries establishes)']
def ob(id, entry, cases, expect, bounds, **kw):
    d = dict(id=id, harness='c06.cc', entry=entry, mode='real', cases=cases, expect=expect, bounds=bounds, tus=TUS, stubs=ST, native=True,
             assumes=['exact-real reading', 'non-negative lengths/thickness/top truncation (schema)', 'Cartesian'], outside=['the geometry of the kernel itself (Newton/Bezier search, trigonometry): not decidable here, DESIGN.md 4/C06', 'quaternion slerp of grain rotations', 'parse-time computation of the culling bounds', 'spherical buffer'])
    d.update(kw); return d
MEM = ['tag is own index or untouched', 'nothing outside the requested slots is written', 'outside [min depth, max depth] the feature has no effect',
       'a point belongs to the feature iff its signed distance is within the interpolated thickness/top truncation and its along-surface distance within the interpolated length',
       'a feature that does not contain the point changes nothing', 'temperature is the section-fraction blend of the two adjacent sections\' model chains',
       'composition is the section-fraction blend of the two adjacent sections\' model chains', 'velocity is the section-fraction blend of the two adjacent sections\' model chains',
       'models receive the interpolated local length and thickness, the feature\'s depth range and the kernel distances', 'end']
OBLIGATIONS = [
    ob('C06.member.slab', 'h_c06_slab', [(0, 2, 1, 1), (0, 3, 2, 1), (0, 2, 2, 0)], MEM, '2-3 sections x 1-2 segments, 0-1 stub models per kind and segment (2 thorough)', cases_thorough=[(0, 2, 1, 1), (0, 3, 2, 1), (0, 2, 2, 0), (0, 3, 2, 2), (0, 4, 2, 1)]),
    ob('C06.member.fault', 'h_c06_fault', [(0, 2, 1, 1), (0, 3, 2, 1), (0, 2, 2, 0)], MEM, 'as C06.member.slab; the trace itself (along-surface distance exactly 0) is not asserted', cases_thorough=[(0, 2, 1, 1), (0, 3, 2, 1), (0, 2, 2, 0), (0, 3, 2, 2), (0, 4, 2, 1)]),
    ob('C06.samearg.slab', 'h_c06_slab', [(2, 2, 1, 0), (2, 3, 2, 0)], ['the public distance query evaluates the kernel once', 'distance_to_feature_plane calls the kernel with the same arguments as properties',
       'kernel gets the feature\'s own tables, dip side flag and start radius', 'the public distance query reports the kernel\'s two distances unchanged', 'end'], '2-3 sections x 1-2 segments'),
    ob('C06.samearg.fault', 'h_c06_fault', [(2, 2, 1, 0), (2, 3, 2, 0)], ['the public distance query evaluates the kernel once', 'distance_to_feature_plane calls the kernel with the same arguments as properties',
       'kernel gets the feature\'s own tables, dip side flag and start radius', 'the public distance query reports the kernel\'s two distances unchanged', 'end'], '2-3 sections x 1-2 segments'),
]
CUT = ['a shortcut (depth cut-off, bounding box) never discards a point that satisfies the membership definition', 'end-culled']
CUT_OBS = [dict(o, time_cap=900, qtimeout_ms=240000) for o in [
    ob('C07.cut.slab', 'h_c06_slab', [(1, 2, 1, 0), (1, 3, 2, 0)], CUT, '2-3 sections x 1-2 segments; planar-construction contract on the hypothetical kernel result', stubs=ST + ['planar-construction contract: depth - min depth <= d_along + |d_perp|; trench foot inside the coordinate box; horizontal offset from the foot <= d_along + |d_perp|']),
    ob('C07.cut.fault', 'h_c06_fault', [(1, 2, 1, 0), (1, 3, 2, 0)], CUT, 'as C07.cut.slab', stubs=ST + ['planar-construction contract as for the slab']),
]]
# the real parse_entries() establishes the bounds that properties() culls with: a member discarded by a wrong bound breaks C06's 'if' direction as well
import C07b
OBLIGATIONS = OBLIGATIONS + C07b.bounds_obs('C06.parse', TUS[1:])
