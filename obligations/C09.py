"""C09 - the 2D cross-section interface equals the 3D interface along the section."""
from C01 import TUS as T1
TUS = ['c09.cc'] + T1[1:]
ST = ['the 3D overload of World::properties is a recording stub returning uninterpreted values', 'sqrt/atan2/sin/cos uninterpreted with contract axioms', 'cross section origin and unit direction are symbolic members (computed by World::parse_entries from JSON: outside)']
def ob(id, entry, mode, cases, expect, bounds, **kw):
    d = dict(id=id, harness='c09.cc', entry=entry, mode=mode, cases=cases, expect=expect, bounds=bounds, tus=TUS, stubs=ST, native=False,
             assumes=['real mode: finite inputs, exact arithmetic (rounding outside the claim)', 'kinds 1..5, n<4, k<=2'], outside=['computation of the section direction vector in parse_entries'])
    d.update(kw); return d
OBLIGATIONS = [
    ob('C09.map', 'h_c09_map', 'real', [(0, 1, 0), (0, 2, 0), (1, 1, 0), (1, 2, 0)] + [(0, 3, k) for k in range(1, 6)],
       ['one 3D query on the same world', 'depth forwarded unchanged', 'property triples forwarded in order', 'Cartesian: distance x along the section at height z',
        'spherical: angle atan2(z,x) along the section at radius sqrt(x^2+z^2)', 'velocity: in-section horizontal component', 'velocity: vertical component', 'velocity: third entry is zero',
        'non-velocity entries are the 3D answer unchanged', '2D answer has no extra entries', 'end'],
       'request lists L<=3 (spherical: L<=2 in the quick tier), grains count <=2, Cartesian and spherical', cases_thorough=[(0, 1, 0), (0, 2, 0), (1, 1, 0), (1, 2, 0)] + [(c, 3, k) for c in (0, 1) for k in range(1, 6)]),
    ob('C09.refuse', 'h_c09_refuse', 'fp', [()], ['2D query without cross section throws and never reaches the 3D query', 'end'], 'all points'),
]
