"""C09 - the 2D cross-section interface equals the 3D interface along the section."""
from C01 import TUS as T1
TUS = ['c09.cc'] + T1[1:]
ST = ['the 3D overload of World::properties is a recording stub returning uninterpreted values', 'sqrt/atan2/sin/cos uninterpreted with contract axioms', 'C09.map: cross section origin and direction are arbitrary symbolic members; C09.dir proves what parse_entries stores there']
def ob(id, entry, mode, cases, expect, bounds, **kw):
    d = dict(id=id, harness='c09.cc', entry=entry, mode=mode, cases=cases, expect=expect, bounds=bounds, tus=TUS, stubs=ST, native=False,
             assumes=['real mode: finite inputs, exact arithmetic (rounding outside the claim)', 'kinds 1..5, n<4, k<=2'], outside=[])
    d.update(kw); return d

WP_TUS = ['world_parse.cc'] + T1[1:]
WP_ST = ['Parameters API stub: constructor, declare_entries and initialize (JSON reading) are empty; every entry is an arbitrary value of its schema type; no features',
         'the world file itself and schema validation are outside']
OBLIGATIONS = [
    ob('C09.map', 'h_c09_map', 'real', [(0, 1, 0), (0, 2, 0), (1, 1, 0), (1, 2, 0)] + [(0, 3, k) for k in range(1, 6)],
       ['one 3D query on the same world', 'depth forwarded unchanged', 'property triples forwarded in order', 'Cartesian: distance x along the section at height z',
        'spherical: angle atan2(z,x) along the section at radius sqrt(x^2+z^2)', 'velocity: in-section horizontal component', 'velocity: vertical component', 'velocity: third entry is zero',
        'non-velocity entries are the 3D answer unchanged', '2D answer has no extra entries', 'end'],
       'request lists L<=3 (spherical: L<=2 in the quick tier), grains count <=2, Cartesian and spherical', cases_thorough=[(0, 1, 0), (0, 2, 0), (1, 1, 0), (1, 2, 0)] + [(c, 3, k) for c in (0, 1) for k in range(1, 6)]),
    dict(id='C09.dir', harness='world_parse.cc', entry='h_world_parse', mode='real', cases=[(0, 2), (1, 2), (0, 1), (0, 3)], expect=['the world is 2D exactly when a cross section is declared',
         'the stored cross section is the declared one (degrees converted to radians in spherical worlds)', 'the section direction is a unit vector', 'the section direction points from the first cross-section point towards the second',
         'a cross section that does not have two points is rejected with an exception', 'direction', 'end', 'end-rejected'],
         bounds='the real World constructor and World::parse_entries; Cartesian and spherical; cross sections of 1..3 points; all coordinates', tus=WP_TUS, stubs=WP_ST + ['sqrt uninterpreted with r>=0, r^2=x'], native=False, allow_throw=True,
         assumes=['exact-real reading; the two points differ'], outside=['rounding of the normalisation'], time_cap=600),
    ob('C09.refuse', 'h_c09_refuse', 'fp', [(0,), (1,), (2,), (3,), (4,)], ['2D query without cross section throws and never reaches the 3D query', 'end'], 'all points, depths and world constants (incl. forced surface temperature); the five 2D entry points properties / temperature (2 overloads) / composition / grains'),
]
