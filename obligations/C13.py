"""C13 - queries are total and return finite numbers (kernels and models; see DESIGN.md for what is outside)."""
import C05, C04, C19, C11, C02
def dom(o, **kw):
    d = dict(o, id=o['id'].replace('C05.', 'C13.dom.').replace('C04.', 'C13.dom.'), domain_checks=True, expect=[l for l in o['expect'] if l.startswith('end')] or ['end'],
             bounds=o['bounds'] + '; every fdiv divisor and every sqrt/acos/log argument executed inside the model code is checked against zero / its domain under the path condition')
    d.update(kw); return d
def mem(o, newid, **kw):
    d = dict(o, id=newid, mode='fpa', memory_only=True, slicing=False, expect=[l for l in o['expect'] if l.startswith('end')] or ['end'],
             bounds=o['bounds'] + '; arbitrary doubles incl. NaN and infinities, arithmetic results abstracted (fpa): only memory safety and termination are claimed')
    d.update(kw); return d
MODELS = ('C05.area.linearT', 'C05.area.chapmanT', 'C05.area.adiabaticT', 'C05.area.uniformT', 'C05.area.uniformC', 'C05.area.uniformV', 'C05.area.uniformG', 'C05.oceanic.halfspace')
OBLIGATIONS = [dom(o) for o in C05.OBLIGATIONS if o['id'] in MODELS] \
    + [dom(o) for o in C04.OBLIGATIONS if o['id'] in ('C04.ellipse',)] \
    + [mem(o, o['id'].replace('C05.', 'C13.mem.'), cases=[c for c in o['cases'] if len(c) < 2 or (c[1] == 0 and (c[0] != 3 or not o['id'].endswith('halfspace'))) or o['id'].endswith(('uniformC', 'uniformG'))], cases_thorough=o['cases']) for o in C05.OBLIGATIONS if o['id'] in MODELS] \
    + [mem(o, 'C13.mem.polygon') for o in C04.OBLIGATIONS if o['id'] == 'C04.polysafe'] \
    + [mem(o, 'C13.mem.kd', cases=[(1, 0), (2, 0), (2, 1)], cases_thorough=[(1, 0), (2, 0), (3, 0), (2, 1), (3, 1)], time_cap=1500) for o in C19.OBLIGATIONS if o['id'] == 'C19.kd'] \
    + [dict(o, id=o['id'].replace('C02.frame', 'C13.mem.feature')) for o in C02.OBLIGATIONS if o['id'].startswith('C02.frame')]
