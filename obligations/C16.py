"""C16 - the C and C++ wrappers are transparent."""
TUS = ['c16.cc', 'wrapper_c', 'wrapper_cpp']
ST = ['World constructor, destructor, properties (2D/3D), properties_output_size, temperature, composition replaced by recording stubs (__wrap_)',
      'libstdc++ out-of-line std::string members modelled (engine/strmodel.py)']
def ob(id, entry, mode, cases, expect, bounds, **kw):
    d = dict(id=id, harness='c16.cc', entry=entry, mode=mode, cases=cases, expect=expect, bounds=bounds, tus=TUS, stubs=ST,
             assumes=['strings have the stated concrete lengths, characters symbolic and non-NUL'], outside=['the Fortran and Python bindings', 'what World itself does with the arguments (C01-C15)'])
    d.update(kw); return d
OBLIGATIONS = [
    ob('C16.create', 'h_c16_create', 'fp', [(f, d, g) for f in (0, 2) for d in (0, 1, 2, 4) for g in (0, 1)],
       ['create_world returns the constructed world', 'file name characters reach the constructor', 'full output directory reaches the constructor', 'output directory characters reach the constructor',
        'seed reaches the constructor', 'release_world destroys exactly that world', 'end'],
       'file name 0..3 characters, output directory null or 0..3 characters, flag pointer null/non-null, any seed',
       cases_thorough=[(f, d, g) for f in (0, 1, 2, 3) for d in (0, 1, 2, 3, 4) for g in (0, 1)]),
    ob('C16.fwd', 'h_c16_properties', 'fp', [(n, r, d) for n in (0, 1, 3) for r in (0, 1, 8) for d in (2, 3)],
       ['the query goes to the given world through the right entry point', 'property triples are forwarded in order', 'returned values are copied in order', 'nothing is written past the returned values', 'end'],
       'n_properties <= 3 (quick) / <= 4 (thorough), returned vector <= 8 (quick) / <= 12 values, 2D and 3D',
       cases_thorough=[(n, r, d) for n in (0, 1, 2, 3, 4) for r in (0, 1, 3, 8, 12) for d in (2, 3)]),
    ob('C16.seq', 'h_c16_sequence', 'fp', [(n1, n2, d) for n1 in (1, 3, 4) for n2 in (0, 1, 2) for d in (2, 3)],
       ['second request has its own length whatever came before', 'second size request has its own length whatever came before', 'end'],
       'two consecutive requests of lengths n1 <= 4 and n2 <= 2 through the same entry point (no state kept between calls)'),
    ob('C16.scalar', 'h_c16_scalar', 'fp', [()], ['temperature_3d is transparent', 'composition_2d is transparent', 'C++ composition_2d is transparent', 'end'], 'all points, depths, composition numbers'),
    ob('C16.cppcreate', 'h_c16_cpp_create', 'fp', [(1, 0), (2, 3), (0, 2)], ['C++ wrapper holds the constructed world', 'C++ wrapper forwards the output directory', 'C++ wrapper destructor destroys its world', 'end'],
       'file name and output directory 0..3 characters'),
]
