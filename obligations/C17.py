"""C17 - gwb-dat prints exactly the library's values under its column headers (column arithmetic via the Clang AST, see DESIGN.md 3.4).
The index expressions of main()'s header and row emission are extracted from the AST of /repo/source/gwb-dat/main.cc and compared, with z3 (QF_NIA),
for ALL composition counts, grain-composition counts and grain counts, against the slot World::properties assigns to the property each header token names
(layout = widths 1/1/10k/1/3 in request order, proved for the real World::properties under C01)."""
import os, sys, time, re
sys.path.insert(0, os.path.join(os.path.dirname(os.path.abspath(__file__)), '..', 'engine'))
import z3
import astx, build

OBLIGATIONS = []
SRC = os.path.join(build.REPO, 'source', 'gwb-dat', 'main.cc')

class Ctx:
    def __init__(s): s.queries = 0; s.solver_s = 0.0; s.asserts = 0; s.violations = []; s.notes = []
    def prove(s, claim, assumptions, what, detail, names):
        """claim must hold for all values: check assumptions and not claim"""
        sol = z3.Solver(); sol.set('timeout', 60000); sol.add(*assumptions); sol.add(z3.Not(claim))
        t = time.time(); r = sol.check(); s.solver_s += time.time() - t; s.queries += 1; s.asserts += 1
        if r == z3.sat:
            m = sol.model(); inp = [(n, 'i64', m.eval(v, model_completion=True).as_long(), str(m.eval(v, model_completion=True))) for n, v in names]
            s.violations.append(dict(kind='assert', what=what, detail=detail, inputs=inp, native=None)); return False
        if r == z3.unknown: s.notes.append(('unknown', what)); return None
        return True

def width(kind, k):
    return z3.If(kind == 3, 10 * k, z3.If(kind == 5, z3.IntVal(3), z3.IntVal(1)))

def property_list(tree):
    """[('one', (a,b,c)) | ('loop', var, bound, (a,b,c))] from properties.push_back(...) statements (terms are astx terms)"""
    segs = []
    def pb(e):
        return e[0] == 'call' and e[1] == 'push_back' and e[2][0] == ('var', 'properties')
    def triple(e):
        t = e[2][1]
        while t[0] == 'list' and len(t[1]) == 1: t = t[1][0]
        if t[0] != 'list' or len(t[1]) != 3: raise astx.AstxError('push_back argument shape: ' + astx.term_str(t))
        def un(x):
            while x[0] == 'call' and len(x[2]) == 1: x = x[2][0]
            return x
        return tuple(un(x) for x in t[1])
    def go(tr, loop):
        k = tr[0]
        if k == 'seq':
            for c in tr[1]: go(c, loop)
        elif k == 'for': go(tr[4], (tr[1], tr[3]))
        elif k == 'expr' and pb(tr[1]):
            if loop is None: segs.append(('one', triple(tr[1])))
            else:
                c = loop[1]
                if not (c[0] == 'bin' and c[1] == '<' and c[2] == ('var', loop[0])): raise astx.AstxError('loop bound shape')
                segs.append(('loop', loop[0], c[3], triple(tr[1])))
        elif k == 'if': go(tr[2], loop); go(tr[3], loop)
        elif k in ('forrange', 'while'): go(tr[2], loop)
        elif k in ('switch', 'case', 'default'): pass
    go(tree, None)
    return segs

def split_case(switch_body, value):
    """statements between `case value` and the next break"""
    items = switch_body[1]; out = []; on = False
    for it in items:
        if it[0] == 'case':
            on = it[1] == ('int', value)
            if on: out.append(it[2])
            continue
        if it[0] == 'default': on = False; continue
        if on:
            if it[0] == 'break': break
            out.append(it)
    return out

def stream_items(e):
    xs = astx.flatten_stream(e)
    if xs[0] != ('var', 'cout'): return None
    return xs[1:]

def gen_columns(stmts, row):
    """-> list of (loops, item): loops = [(var, bound_term)], item = ('tok', pieces) for header, ('echo', j) / ('out', idx_term) for rows; local decls substituted"""
    cols = []
    def subst(t, env):
        if t[0] == 'var' and t[1] in env: return env[t[1]]
        if t[0] == 'bin': return ('bin', t[1], subst(t[2], env), subst(t[3], env))
        if t[0] == 'idx': return ('idx', subst(t[1], env), subst(t[2], env))
        return t
    def go(tr, loops, env):
        k = tr[0]
        if k == 'seq':
            env = dict(env)
            for c in tr[1]: go(c, loops, env)
        elif k == 'for':
            c = tr[3]
            if tr[1] == 'i': go(tr[4], loops, env); return        # the loop over the rows of the data file
            if not (c and c[0] == 'bin' and c[1] == '<' and c[2] == ('var', tr[1])): raise astx.AstxError('loop bound shape in emission code')
            go(tr[4], loops + [(tr[1], subst(c[3], env))], env)
        elif k == 'if': go(tr[2], loops, env)
        elif k == 'decl':
            for n, v in tr[1]:
                if v is not None and v[0] in ('bin', 'int', 'var'): env[n] = subst(v, env)
        elif k == 'expr':
            e = tr[1]
            if e[0] != 'shl': return
            xs = stream_items(e)
            if xs is None: return
            if not row:
                pieces = []
                for x in xs:
                    if x[0] in ('str', 'chr'): pieces.append(('s', x[1]))
                    elif x[0] == 'var' and x[1] != 'endl': pieces.append(('v', x[1]))
                # split into whitespace separated tokens
                cur = []
                for p in pieces:
                    if p[0] == 'v': cur.append(p); continue
                    parts = re.split(r'(\s+)', p[1])
                    for q in parts:
                        if q == '': continue
                        if q.isspace():
                            if cur: cols.append((loops, ('tok', cur))); cur = []
                        else: cur.append(('s', q))
                if cur: cols.append((loops, ('tok', cur)))
            else:
                for x in xs:
                    if x[0] == 'idx':
                        if x[1] == ('var', 'output'): cols.append((loops, ('out', subst(x[2], env))))
                        elif x[1][0] == 'idx' and x[1][1] == ('var', 'data'): cols.append((loops, ('echo', x[2])))
    go(('seq', stmts), [], {})
    return cols

def token_meaning(pieces, dim):
    """header token -> ('input', name) | ('T',) | ('v', comp) | ('c', var) | ('gs', a, g) | ('gm', a, g, r, c) | ('tag',) | None ; '#' -> 'skip'"""
    txt = ''.join(p[1] if p[0] == 's' else '{%s}' % p[1] for p in pieces)
    if txt == '#': return 'skip'
    if txt in ('x', 'y', 'z', 'd'): return ('input', txt)
    if txt == 'T': return ('T',)
    if txt in ('vx', 'vy', 'vz'):
        order = ['vx', 'vz'] if dim == 2 else ['vx', 'vy', 'vz']
        return ('v', order.index(txt))
    if txt == 'tag': return ('tag',)
    m = re.fullmatch(r'c\{(\w+)\}', txt)
    if m: return ('c', m.group(1))
    m = re.fullmatch(r'gs\{(\w+)\}-\{(\w+)\}', txt)
    if m: return ('gs', m.group(1), m.group(2))
    m = re.fullmatch(r'gm\{(\w+)\}-\{(\w+)\}\[(\d):(\d)\]', txt)
    if m: return ('gm', m.group(1), m.group(2), int(m.group(3)), int(m.group(4)))
    return None

def check_dim(ctx, tree, dim, plist):
    sw = astx.find(tree, lambda x: x[0] == 'switch' and x[1] == ('var', 'dim'))
    if not sw: raise astx.AstxError('no switch(dim) in main')
    stmts = split_case(sw[-1][2], dim)
    if not stmts: raise astx.AstxError('no case %d' % dim)
    # header = emissions before the loop over data rows, rows = inside it
    head_stmts = []; row_stmts = []
    for s_ in stmts:
        if s_[0] == 'for' and s_[1] == 'i': row_stmts.append(s_)
        else: head_stmts.append(s_)
    H = [c for c in gen_columns(head_stmts, False) if token_meaning(c[1][1], dim) != 'skip']
    R = gen_columns(row_stmts, True)
    # symbolic parameters
    C, G, K = z3.Int('compositions'), z3.Int('grain_compositions'), z3.Int('n_grains')
    base_env = {'compositions': C, 'grain_compositions': G, 'n_grains': K}
    pos = [C >= 0, G >= 0, K >= 0]
    # layout offsets from the property list, in request order
    off = z3.IntVal(0); where = {}
    for seg in plist:
        if seg[0] == 'one':
            kind = seg[1][0][1]; where[('one', kind)] = off
            off = off + (3 if kind == 5 else 1 if kind != 3 else 10 * astx.to_z3(seg[1][2], base_env))
        else:
            _, var, bound, tr = seg; kind = tr[0][1]
            w = z3.IntVal(1) if kind != 3 else 10 * astx.to_z3(tr[2], base_env)
            where[('loop', kind)] = (off, w, astx.to_z3(bound, base_env), tr, var)
            off = off + astx.to_z3(bound, base_env) * w
    total = off
    base_env['output.size'] = total
    names = [('compositions', C), ('grain_compositions', G), ('n_grains', K)]
    # 1. inputs echoed
    h_inputs = [c for c in H if isinstance(token_meaning(c[1][1], dim), tuple) and token_meaning(c[1][1], dim)[0] == 'input']
    r_echo = [c for c in R if c[1][0] == 'echo']
    ok = len(h_inputs) == dim + 1 and len(r_echo) == dim + 1 and all(c[1][1] == ('int', j) for j, c in enumerate(r_echo))
    ctx.asserts += 1
    if not ok: ctx.violations.append(dict(kind='assert', what='dim=%d: the first columns echo the %d input tokens in order' % (dim, dim + 1), detail='header inputs %d, echoed %d' % (len(h_inputs), len(r_echo)), inputs=[], native=None))
    # 2. value columns: align header value tokens with row output items, generator by generator
    hv = [c for c in H if not (isinstance(token_meaning(c[1][1], dim), tuple) and token_meaning(c[1][1], dim)[0] == 'input')]
    rv = [c for c in R if c[1][0] == 'out']
    unknown = [c for c in hv if token_meaning(c[1][1], dim) is None]
    for c in unknown:
        txt = ''.join(p[1] for p in c[1][1])
        ctx.asserts += 1
        ctx.violations.append(dict(kind='assert', what='dim=%d: header announces a column "%s" that names no library value' % (dim, txt), detail='rows print no value for it', inputs=[], native=None))
    hv = [c for c in hv if token_meaning(c[1][1], dim) is not None]
    ctx.asserts += 1
    if len(hv) != len(rv):
        ctx.violations.append(dict(kind='assert', what='dim=%d: header and rows have the same number of value columns' % dim, detail='header generators %d, row generators %d' % (len(hv), len(rv)), inputs=[], native=None))
    for (hl, htok), (rl, ritem) in zip(hv, rv):
        mean = token_meaning(htok[1], dim)
        ctx.asserts += 1
        # same loop nest (same bounds)
        if len(hl) != len(rl):
            ctx.violations.append(dict(kind='assert', what='dim=%d: header token %r and its value are emitted in the same loops' % (dim, mean), detail='', inputs=[], native=None)); continue
        env = dict(base_env); asm = list(pos); ren = {}
        for (hvn, hb), (rvn, rb) in zip(hl, rl):
            v = z3.Int('loop_' + rvn); env[rvn] = v; ren[hvn] = v
            asm += [v >= 0, v < astx.to_z3(rb, env)]
            ctx.prove(astx.to_z3(hb, dict(base_env)) == astx.to_z3(rb, dict(base_env)), pos, 'dim=%d: header and row loops over %s have the same bound' % (dim, rvn), '', names)
        idx = astx.to_z3(ritem[1], env)
        def lv(name): return ren[name]
        if mean[0] == 'T': exp = where[('one', 1)]; label = 'T'
        elif mean[0] == 'v': exp = where[('one', 5)] + mean[1]; label = ['vx', 'vz'][mean[1]] if dim == 2 else ['vx', 'vy', 'vz'][mean[1]]
        elif mean[0] == 'tag': exp = where[('one', 4)]; label = 'tag'
        elif mean[0] == 'c':
            o, w, b, tr, var = where[('loop', 2)]; exp = o + lv(mean[1]) * w; label = 'c<n>'
            # the composition number requested for entry n is n
        elif mean[0] == 'gs':
            o, w, b, tr, var = where[('loop', 3)]; exp = o + lv(mean[1]) * w + lv(mean[2]); label = 'gs<a>-<g>'
        elif mean[0] == 'gm':
            o, w, b, tr, var = where[('loop', 3)]; exp = o + lv(mean[1]) * w + K + 9 * lv(mean[2]) + 3 * mean[3] + mean[4]; label = 'gm<a>-<g>[%d:%d]' % (mean[3], mean[4])
        else: raise astx.AstxError('meaning ' + repr(mean))
        # classify a constant shift so that a known finding can be keyed narrowly
        shift = ''
        sol = z3.Solver(); sol.set('timeout', 20000); sol.add(*asm); sol.add(idx != exp - 1); ctx.queries += 1
        if sol.check() == z3.unsat: shift = ' [row index is exactly one slot early]'
        ctx.prove(idx == exp, asm, 'dim=%d: column %s prints the slot the library assigns to that property%s' % (dim, label, shift),
                  'row prints output[%s]; library layout for the request built in main puts it at %s' % (astx.term_str(ritem[1]), z3.simplify(exp)), names + [(k, v) for k, v in env.items() if k.startswith('loop_') or k in ()] + [('loop_' + k, v) for k, v in ren.items() if ('loop_' + k) not in env])
        ctx.prove(z3.And(idx >= 0, idx < total), asm, 'dim=%d: column %s reads inside the returned vector' % (dim, label), '', names)
    return len(H), len(R)

def extra_checks(tier, scratch):
    t0 = time.time(); ctx = Ctx(); res = []
    r = dict(id='C17.cols', case=[], verdict='PROVED', violations=[], undecided=[], stats={}, reached={}, called=['main (source/gwb-dat/main.cc, Clang AST)'], axioms=[], validated=0, validation_mismatch=[], wall=0, samples=[])
    try:
        tree = astx.main_tree(SRC)
        plist = property_list(tree)
        kinds = [s[1][0][1] if s[0] == 'one' else s[3][0][1] for s in plist]
        ctx.asserts += 1
        if kinds != [1, 5, 2, 3, 4]: ctx.violations.append(dict(kind='assert', what='the request built in main is [T, velocity, compositions.., grains.., tag]', detail=str(kinds), inputs=[], native=None))
        # composition entry n requests composition number n; grains entry a requests grains (a, n_grains)
        for s in plist:
            if s[0] == 'loop':
                ctx.asserts += 1
                if s[3][1] != ('var', s[1]): ctx.violations.append(dict(kind='assert', what='loop entry requests its own index as composition number', detail=astx.term_str(s[3][1]), inputs=[], native=None))
        # option lines ("# dim = ", "# compositions = ", ...) are honoured wherever they stand: the scan over the lines of the data file
        # that assigns the option variables visits every line (no break / continue / return inside it)
        scans = [t for t in astx.find(tree, lambda x: x[0] == 'forrange' and x[1] == ('var', 'data'))
                 if astx.find(t[2], lambda y: y[0] == 'expr' and y[1][0] == 'bin' and y[1][1] == '=' and y[1][2] in (('var', 'dim'), ('var', 'compositions'), ('var', 'grain_compositions'), ('var', 'n_grains'), ('var', 'convert_spherical')))]
        ctx.asserts += 1
        if len(scans) != 1: ctx.notes.append(('shape', 'expected one loop over the lines of the data file that assigns the option variables, found %d' % len(scans)))
        else:
            opts = set(y[1][2][1] for y in astx.find(scans[0][2], lambda y: y[0] == 'expr' and y[1][0] == 'bin' and y[1][1] == '='))
            early = astx.find(scans[0][2], lambda y: y[0] in ('break', 'continue', 'return'))
            ctx.asserts += 2
            if early: ctx.violations.append(dict(kind='assert', what='option lines are read from every line of the data file (the scan never stops early)', detail='%d early exit(s) in the option scan' % len(early), inputs=[], native=None))
            if opts != {'dim', 'compositions', 'grain_compositions', 'n_grains', 'convert_spherical'}:
                ctx.violations.append(dict(kind='assert', what='the option scan sets dim, compositions, grain compositions, number of grains and convert spherical', detail=str(sorted(opts)), inputs=[], native=None))
        # malformed rows are reported: every token of a data row that is turned into a number goes through the strict converters of
        # Utilities (whole token must be a number, else an exception); a lenient library conversion (stod, atof, strtod, stream >>) would
        # silently misread "100km" as 100.  Structural check on the AST (syntactic, no solver verdict).
        STRICT = {'string_to_double', 'string_to_int', 'string_to_unsigned_int'}
        conv = []
        def is_token(t):
            return isinstance(t, tuple) and len(t) == 3 and t[0] == 'idx' and isinstance(t[1], tuple) and t[1][0] == 'idx' and t[1][1] == ('var', 'data')
        def scan(t):
            if isinstance(t, tuple):
                if t and t[0] == 'call' and isinstance(t[2], list) and any(is_token(a) for a in t[2]): conv.append(t[1])
                if t and t[0] == 'shl' and False: pass
                for x in t: scan(x)
            elif isinstance(t, list):
                for x in t: scan(x)
        scan(tree)
        ctx.asserts += 2
        LENIENT = {'stod', 'stof', 'stold', 'atof', 'strtod', 'strtof', 'strtold', 'stoi', 'stol', 'stoul', 'stoll', 'stoull', 'atoi', 'atol', 'atoll', 'strtol', 'strtoul', 'strtoll', 'strtoull', 'sscanf', 'operator>>', 'from_chars'}
        ctx.asserts += 1
        n_strict = sum(1 for c in conv if c in STRICT)
        # fewer recognised strict conversions than coordinates is an unknown shape (e.g. tokens copied into locals first), not evidence of a defect: no verdict
        if n_strict < 7 and not any(c in LENIENT for c in conv): ctx.notes.append(('shape', 'only %d conversions of data tokens by the strict converters recognised (2D: x, z, depth; 3D: x, y, z, depth)' % n_strict))
        bad = sorted(set(str(c) for c in conv if c in LENIENT))
        if bad: ctx.violations.append(dict(kind='assert', what='data row tokens are converted to numbers by the strict converters', detail='converted by: ' + ', '.join(bad), inputs=[], native=None))
        r['samples'].append(dict(obligation='C17.cols', token_conversions=sorted(set(str(c) for c in conv))))
        for dim in (2, 3):
            nh, nr = check_dim(ctx, tree, dim, plist)
            r['samples'].append(dict(obligation='C17.cols', dim=dim, header_generators=nh, row_generators=nr))
        r['violations'] = ctx.violations
        if ctx.violations: r['verdict'] = 'VIOLATED'
        for n in ctx.notes: r['undecided'].append(n)
        if ctx.notes and not ctx.violations: r['verdict'] = 'UNDECIDED'
        r['reached'] = {'__path_END': 1, 'columns compared': ctx.asserts}
    except astx.AstxError as e:
        r['verdict'] = 'ENCODING-ERROR'; r['undecided'].append(('astx', str(e)))
    r['stats'] = dict(paths=2, queries=ctx.queries, asserts=ctx.asserts, asserts_proved=ctx.asserts - len(ctx.violations), solver_s=ctx.solver_s, steps=ctx.asserts)
    r['wall'] = round(time.time() - t0, 2)
    return [r]
