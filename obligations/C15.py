"""C15 - seeded randomness is reproducible and random grains are valid."""
from C05 import BASE
TUS = ['c15.cc'] + BASE + ['features/%s_models/grains/interface' % f for f in ('continental_plate', 'oceanic_plate', 'mantle_layer', 'plume', 'fault', 'subducting_plate')] + ['features/continental_plate_models/composition/interface']
ST = ['uniform_real_distribution<double>::operator() specialised to a fresh value u in [0,1) scaled to [a,b) (randomness = arbitrary value of its contract); the Mersenne Twister itself is outside',
      'sin/cos/sqrt uninterpreted with axioms sin^2+cos^2=1 (same argument), sqrt(x)=r: r>=0, r^2=x', 'Parameters API stub']
def ob(id, entry, cases, expect, bounds, **kw):
    d = dict(id=id, harness='c15.cc', entry=entry, mode='real', cases=cases, expect=expect, bounds=bounds, tus=TUS, stubs=ST, native=True, assumes=['exact-real reading'],
             outside=['MT19937 (seeding, stream, "different seeds give different draws")', 'the fault / subducting plate families are covered by C15.size.line and the deflected variant by C15.size.deflected (sizes only)'])
    d.update(kw); return d
from C01 import TUS as T1
WP_TUS = ['world_parse.cc'] + T1[1:]
WP_ST = ['Parameters API stub: constructor, declare_entries and initialize (JSON reading) are empty; every entry is an arbitrary value of its schema type; no features',
         'the world file itself and schema validation are outside']
OBLIGATIONS = [
    dict(id='C15.seed', harness='world_parse.cc', entry='h_world_parse', mode='real', cases=[(0, 2)], expect=['the engine is mt19937 seeded with the file\'s non-negative \'random number seed\' (rank 0), else with the constructor seed',
         'the first state word is the seed itself: different seeds give different engines', 'end'],
         bounds='the real World constructor and World::parse_entries with all 2^64 constructor seeds and all 2^32 file seed entries; libstdc++ mt19937 seeding executed symbolically (624 state words compared)', tus=WP_TUS, stubs=WP_ST, native=False, allow_throw=True,
         assumes=['MPI rank 0 (the library is built without MPI here)'], outside=['the output stream of MT19937 beyond its seeding (standard library)'], time_cap=600),
    ob('C15.rot', 'h_c15_grains', [(1, 0, 0, 1)], ['the only pre-existing state a random model may touch is the world\'s engine', 'the number of draws depends only on the model state, the composition number and the grain count',
       'random grain orientation is orthonormal (R R^T = I)', 'random grain orientation has determinant +1', 'end'], '1 grain (quick) / 2 grains (thorough)', cases_thorough=[(1, 0, f, 1) for f in range(3)] + [(2, 0, 0, 1)], time_cap=900, libm_mono=False, ackermann=True),
    ob('C15.size', 'h_c15_grains', [(k, 1, f, n) for f in range(3) for (k, n) in ((1, 1), (2, 1), (2, 2))], ['grain count is preserved', 'normalised grain sizes sum to one', 'fixed grain sizes are returned as given', 'random grain sizes lie in [0,1)', 'end'], '1..2 grains (3 thorough), 1..2 listed compositions with arbitrary labels, continental / oceanic / mantle-layer families', cases_thorough=[(k, 1, f, n) for f in range(3) for (k, n) in ((1, 1), (2, 1), (2, 2), (3, 2))]),
    ob('C15.size.deflected', 'h_c15_deflected', [(k, f, n) for f in range(4) for (k, n) in ((1, 1), (2, 2))], ['grain count is preserved', 'normalised grain sizes sum to one', 'fixed grain sizes are returned as given', 'random grain sizes lie in [0,1)', 'end'],
       '"random uniform distribution deflected": 1..2 grains, 1..2 listed compositions with arbitrary labels, continental / oceanic / mantle-layer / plume families; deflections and basis matrices arbitrary accepted values', cases_thorough=[(k, f, n) for f in range(4) for (k, n) in ((1, 1), (2, 1), (2, 2), (3, 2))],
       outside=['MT19937 (seeding, stream, "different seeds give different draws")', 'the orientation of the deflected variant (only its sizes and draw count are asserted)', 'the fault / subducting plate families: C15.size.line']),
    ob('C15.size.line', 'h_c15_line', [(k, f, n) for f in range(4) for (k, n) in ((1, 1), (2, 2))], ['grain count is preserved', 'normalised grain sizes sum to one', 'fixed grain sizes are returned as given', 'random grain sizes lie in [0,1)', 'end'],
       'fault and subducting-plate families, "random uniform distribution" and its deflected variant: 1..2 grains, 1..2 listed compositions with arbitrary labels; arbitrary distance from the plane within the model range', cases_thorough=[(k, f, n) for f in range(4) for (k, n) in ((1, 1), (2, 1), (2, 2), (3, 2))],
       outside=['MT19937 (seeding, stream, "different seeds give different draws")', 'the orientations of these variants (only sizes and draw count are asserted; the rotation identities are C15.rot on the continental class)']),
    ob('C15.comp', 'h_c15_composition', [()], ['one draw per random composition', 'random composition lies within its configured bounds', 'end'], 'all bounds with max > min'),
]
