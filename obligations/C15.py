"""C15 - seeded randomness is reproducible and random grains are valid."""
from C05 import BASE
TUS = ['c15.cc'] + BASE + ['features/%s_models/grains/interface' % f for f in ('continental_plate', 'oceanic_plate', 'mantle_layer')] + ['features/continental_plate_models/composition/interface']
ST = ['uniform_real_distribution<double>::operator() specialised to a fresh value u in [0,1) scaled to [a,b) (randomness = arbitrary value of its contract); the Mersenne Twister itself is outside',
      'sin/cos/sqrt uninterpreted with axioms sin^2+cos^2=1 (same argument), sqrt(x)=r: r>=0, r^2=x', 'Parameters API stub']
def ob(id, entry, cases, expect, bounds, **kw):
    d = dict(id=id, harness='c15.cc', entry=entry, mode='real', cases=cases, expect=expect, bounds=bounds, tus=TUS, stubs=ST, native=True, assumes=['exact-real reading'],
             outside=['MT19937 (seeding, stream, "different seeds give different draws")', 'seeding in the World constructor / parse_entries (JSON)', 'the deflected variant and the fault / subducting plate / plume families (same code pattern, different call signature; not instantiated)'])
    d.update(kw); return d
OBLIGATIONS = [
    ob('C15.rot', 'h_c15_grains', [(1, 0, 0, 1)], ['the only pre-existing state a random model may touch is the world\'s engine', 'the number of draws depends only on the model state, the composition number and the grain count',
       'random grain orientation is orthonormal (R R^T = I)', 'random grain orientation has determinant +1', 'end'], '1 grain (quick) / 2 grains (thorough)', cases_thorough=[(1, 0, f, 1) for f in range(3)] + [(2, 0, 0, 1)], time_cap=270, libm_mono=False, ackermann=True),
    ob('C15.size', 'h_c15_grains', [(k, 1, f, n) for f in range(3) for (k, n) in ((1, 1), (2, 1), (2, 2))], ['grain count is preserved', 'normalised grain sizes sum to one', 'fixed grain sizes are returned as given', 'random grain sizes lie in [0,1)', 'end'], '1..2 grains (3 thorough), 1..2 listed compositions with arbitrary labels, continental / oceanic / mantle-layer families', cases_thorough=[(k, 1, f, n) for f in range(3) for (k, n) in ((1, 1), (2, 1), (2, 2), (3, 2))]),
    ob('C15.comp', 'h_c15_composition', [()], ['one draw per random composition', 'random composition lies within its configured bounds', 'end'], 'all bounds with max > min'),
]
