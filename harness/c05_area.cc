// C05 (closed-form models) for the area-feature families: continental plate, oceanic plate, mantle layer.
// Each model object is built by its real constructor and its real parse_entries(), fed by the Parameters stub
// (arbitrary schema-typed values); the query is compared with the documented expression (exact-real reading).
#include "frame_area.h"
#include "prm_stub.h"
#include "world_builder/features/feature_utilities.h"
#include "world_builder/features/continental_plate_models/temperature/uniform.h"
#include "world_builder/features/continental_plate_models/temperature/linear.h"
#include "world_builder/features/continental_plate_models/temperature/adiabatic.h"
#include "world_builder/features/continental_plate_models/temperature/chapman.h"
#include "world_builder/features/continental_plate_models/composition/uniform.h"
#include "world_builder/features/continental_plate_models/velocity/uniform_raw.h"
#include "world_builder/features/continental_plate_models/grains/uniform.h"
#include "world_builder/features/oceanic_plate_models/temperature/uniform.h"
#include "world_builder/features/oceanic_plate_models/temperature/linear.h"
#include "world_builder/features/oceanic_plate_models/temperature/adiabatic.h"
#include "world_builder/features/oceanic_plate_models/composition/uniform.h"
#include "world_builder/features/oceanic_plate_models/velocity/uniform_raw.h"
#include "world_builder/features/oceanic_plate_models/grains/uniform.h"
#include "world_builder/features/mantle_layer_models/temperature/uniform.h"
#include "world_builder/features/mantle_layer_models/temperature/linear.h"
#include "world_builder/features/mantle_layer_models/temperature/adiabatic.h"
#include "world_builder/features/mantle_layer_models/composition/uniform.h"
#include "world_builder/features/mantle_layer_models/velocity/uniform_raw.h"
#include "world_builder/features/mantle_layer_models/grains/uniform.h"
#include <cmath>
#include <limits>
using namespace H;
using Features::FeatureUtilities::Operations;
namespace CP = WorldBuilder::Features::ContinentalPlateModels;
namespace OP = WorldBuilder::Features::OceanicPlateModels;
namespace ML = WorldBuilder::Features::MantleLayerModels;

namespace
{
  alignas(Parameters) unsigned char prm_storage[sizeof(Parameters)];
  Parameters &PRM = *reinterpret_cast<Parameters *>(prm_storage);
  struct Ctx { World *w; std::vector<Point<2>> coords; Point<3> pos; Objects::NaturalCoordinate nc; double depth, g, fmin, fmax; };
  // documented operations: replace / replace defined only -> new value, add -> old+new, subtract -> old-new
  double combine(const Operations op, const double old, const double value)
  { return op == Operations::ADD ? old + value : (op == Operations::SUBTRACT ? old - value : value); }
  double adiabat(const World *w, const double g, const double d) { return w->potential_mantle_temperature * std::exp(w->thermal_expansion_coefficient * g * d / w->specific_heat); }

  // common pre-state: world constants, a query, variable or constant depth surfaces of the model
  template <class M> M *build(World *&w, std::vector<Point<2>> &coords, unsigned long surf)
  {
    w = make_world(0);
    sym_assume(w->specific_heat > 0);
    coords.assign(3, Point<2>(0, 0, cartesian));
    M *m = new M(w);
    m->parse_entries(PRM, coords);
    m->min_depth_surface.constant_value = !(surf & 1); m->max_depth_surface.constant_value = !(surf & 2);
    env = Env();
    return m;
  }
  // model's own range (global min/max and the local surfaces): the statement's "applies only inside its own min/max range"
  template <class M> bool in_model_range(const M *m, const double depth, unsigned long surf, double &lmin, double &lmax)
  {
    lmin = m->min_depth; lmax = m->max_depth; unsigned c = 0;
    if ((surf & 1) && env.surf_calls > c) lmin = env.surf_value[c++];
    if ((surf & 2) && env.surf_calls > c) lmax = env.surf_value[c++];
    return depth <= m->max_depth && depth >= m->min_depth && depth <= lmax && depth >= lmin;
  }

  template <class M> void check_uniform_T(unsigned long surf)
  {
    World *w; std::vector<Point<2>> coords; M *m = build<M>(w, coords, surf);
    const Point<3> pos(sym_f64("x"), sym_f64("y"), sym_f64("z"), cartesian); const Objects::NaturalCoordinate nc(pos, *w->parameters.coordinate_system);
    const double depth = sym_f64("depth"), old = sym_f64("Told"), fmin = sym_f64("fmin"), fmax = sym_f64("fmax");
    sym_freeze(); sym_allow(&env);
    const double T = m->M::get_temperature(pos, nc, depth, sym_f64("gravity"), old, fmin, fmax);
    sym_assert(sym_writes() == 0, "the model query stores only to fresh memory");
    double lmin, lmax; const bool in = in_model_range(m, depth, surf, lmin, lmax);
    if (in) sym_assert(sym_eq(T, combine(m->operation, old, m->temperature)), "uniform temperature: the configured value combined by the declared operation");
    else sym_assert(sym_eq(T, old), "outside its own range the model returns the incoming value");
    sym_reach("end");
  }

  template <class M> void check_adiabatic_T(unsigned long surf)
  {
    World *w; std::vector<Point<2>> coords;
    // parse_entries sees arbitrary (possibly negative = "use global") local constants
    M *m = build<M>(w, coords, surf);
    const Point<3> pos(sym_f64("x"), sym_f64("y"), sym_f64("z"), cartesian); const Objects::NaturalCoordinate nc(pos, *w->parameters.coordinate_system);
    const double depth = sym_f64("depth"), old = sym_f64("Told"), g = sym_f64("gravity");
    sym_assume(m->specific_heat != 0);
    sym_freeze(); sym_allow(&env);
    const double T = m->M::get_temperature(pos, nc, depth, g, old, sym_f64("fmin"), sym_f64("fmax"));
    sym_assert(sym_writes() == 0, "the model query stores only to fresh memory");
    double lmin, lmax; const bool in = in_model_range(m, depth, surf, lmin, lmax);
    if (in) sym_assert(sym_eq(T, combine(m->operation, old, m->potential_mantle_temperature * std::exp(m->thermal_expansion_coefficient * g * depth / m->specific_heat))), "adiabatic temperature: Tp*exp(alpha*g*depth/cp) with the model's constants");
    else sym_assert(sym_eq(T, old), "outside its own range the model returns the incoming value");
    sym_reach("end");
  }
  // the sentinel handling of the adiabatic constants (negative => global value) happens in parse_entries
  template <class M> void check_adiabatic_sentinels()
  {
    World *w; std::vector<Point<2>> coords; M *m = build<M>(w, coords, 0);
    sym_assume(w->potential_mantle_temperature >= 0 && w->thermal_expansion_coefficient >= 0);
    // the values parse_entries was given are the first three "potential mantle temperature", ... inputs; their effect is observable on the members
    sym_assert(m->potential_mantle_temperature >= 0 && m->thermal_expansion_coefficient >= 0 && m->specific_heat >= 0, "negative local constants are replaced (by the non-negative global ones)");
    sym_reach("end");
  }

  template <class M> void check_linear_T(unsigned long surf)
  {
    World *w; std::vector<Point<2>> coords; M *m = build<M>(w, coords, surf);
    const Point<3> pos(sym_f64("x"), sym_f64("y"), sym_f64("z"), cartesian); const Objects::NaturalCoordinate nc(pos, *w->parameters.coordinate_system);
    const double depth = sym_f64("depth"), old = sym_f64("Told"), g = sym_f64("gravity"), fmin = sym_f64("fmin"), fmax = sym_f64("fmax");
    sym_assume(fmin >= 0 && fmax >= fmin && depth >= fmin && depth <= fmax);          // interior point of the feature
    sym_freeze(); sym_allow(&env);
    const double T = m->M::get_temperature(pos, nc, depth, g, old, fmin, fmax);
    sym_assert(sym_writes() == 0, "the model query stores only to fresh memory");
    double lmin, lmax; const bool in = in_model_range(m, depth, surf, lmin, lmax);
    if (!in) { sym_assert(sym_eq(T, old), "outside its own range the model returns the incoming value"); sym_reach("end-out"); return; }
    // local top and bottom of the model's range inside the feature
    const double top_d = std::max(fmin, lmin), bot_d = std::min(fmax, lmax);
    const double top_T = m->top_temperature >= 0 ? m->top_temperature : adiabat(w, g, top_d);          // negative => adiabatic
    const double bot_T = m->bottom_temperature >= 0 ? m->bottom_temperature : adiabat(w, g, bot_d);
    sym_assume(bot_d - top_d >= 1e-9);                                                              // non-degenerate layer
    const double value = top_T + (depth - top_d) * (bot_T - top_T) / (bot_d - top_d);
    sym_assert(sym_eq(T, combine(m->operation, old, value)), "linear temperature: linear between the local top and bottom of the model's range (negative end members => adiabat there)");
    sym_reach("end");
  }

  template <class M> void check_chapman_T(unsigned long surf)
  {
    World *w; std::vector<Point<2>> coords; M *m = build<M>(w, coords, surf);
    const Point<3> pos(sym_f64("x"), sym_f64("y"), sym_f64("z"), cartesian); const Objects::NaturalCoordinate nc(pos, *w->parameters.coordinate_system);
    const double depth = sym_f64("depth"), old = sym_f64("Told"), g = sym_f64("gravity"), fmin = sym_f64("fmin"), fmax = sym_f64("fmax");
    sym_assume(fmin >= 0 && fmax >= fmin && depth >= fmin && depth <= fmax && m->thermal_conductivity > 0);
    sym_freeze(); sym_allow(&env);
    const double T = m->M::get_temperature(pos, nc, depth, g, old, fmin, fmax);
    sym_assert(sym_writes() == 0, "the model query stores only to fresh memory");
    double lmin, lmax; const bool in = in_model_range(m, depth, surf, lmin, lmax);
    if (!in) { sym_assert(sym_eq(T, old), "outside its own range the model returns the incoming value"); sym_reach("end-out"); return; }
    const double top_d = std::max(fmin, lmin), z = depth - top_d;
    const double top_T = m->top_temperature >= 0 ? m->top_temperature : adiabat(w, g, top_d);          // negative => adiabatic
    const double value = top_T + (m->top_heat_flux / m->thermal_conductivity) * z - m->heat_production_per_unit_volume / (2. * m->thermal_conductivity) * z * z;
    sym_assert(sym_eq(T, combine(m->operation, old, value)), "Chapman geotherm: T_top + q/k z - A/(2k) z^2 from the local top (negative top temperature => adiabat there)");
    sym_reach("end");
  }

  template <class M> void check_uniform_C(unsigned long surf, unsigned long n_listed)
  {
    prm.set_len("compositions", unsigned(n_listed)); prm.set_len("fractions", unsigned(n_listed));
    World *w; std::vector<Point<2>> coords; M *m = build<M>(w, coords, surf);
    const Point<3> pos(sym_f64("x"), sym_f64("y"), sym_f64("z"), cartesian); const Objects::NaturalCoordinate nc(pos, *w->parameters.coordinate_system);
    const double depth = sym_f64("depth"), old = sym_f64("Cold"); const unsigned number = sym_u32("number");
    for (unsigned i = 0; i < m->compositions.size(); ++i) for (unsigned j = 0; j < i; ++j) sym_assume(m->compositions[i] != m->compositions[j]);   // a composition is listed once
    sym_freeze(); sym_allow(&env);
    const double C = m->M::get_composition(pos, nc, depth, number, old, sym_f64("fmin"), sym_f64("fmax"));
    sym_assert(sym_writes() == 0, "the model query stores only to fresh memory");
    double lmin, lmax; const bool in = in_model_range(m, depth, surf, lmin, lmax);
    if (!in) { sym_assert(sym_eq(C, old), "outside its own range the model returns the incoming value"); sym_reach("end-out"); return; }
    bool listed = false; double fraction = 0;
    for (unsigned i = 0; i < m->compositions.size(); ++i) if (m->compositions[i] == number) { listed = true; fraction = m->fractions[i]; }
    if (listed) sym_assert(sym_eq(C, combine(m->operation, old, fraction)), "uniform composition: a listed composition gets its fraction combined by the operation");
    else if (m->operation == Operations::REPLACE) sym_assert(C == 0.0, "uniform composition: replace clears the compositions it does not list");
    else sym_assert(sym_eq(C, old), "uniform composition: other operations leave unlisted compositions untouched");
    sym_reach("end");
  }

  template <class M> void check_uniform_V(unsigned long surf)
  {
    prm.set_len("velocity", 3);
    World *w; std::vector<Point<2>> coords; M *m = build<M>(w, coords, surf);
    const Point<3> pos(sym_f64("x"), sym_f64("y"), sym_f64("z"), cartesian); const Objects::NaturalCoordinate nc(pos, *w->parameters.coordinate_system);
    const double depth = sym_f64("depth"); const std::array<double,3> old = {{sym_f64("v0"), sym_f64("v1"), sym_f64("v2")}};
    sym_freeze(); sym_allow(&env);
    const std::array<double,3> V = m->M::get_velocity(pos, nc, depth, sym_f64("gravity"), old, sym_f64("fmin"), sym_f64("fmax"));
    sym_assert(sym_writes() == 0, "the model query stores only to fresh memory");
    double lmin, lmax; const bool in = in_model_range(m, depth, surf, lmin, lmax);
    for (unsigned c = 0; c < 3; ++c)
      {
        if (in) sym_assert(sym_eq(V[c], combine(m->operation, old[c], m->velocity[c])), "uniform raw velocity: the configured vector combined by the operation");
        else sym_assert(sym_eq(V[c], old[c]), "outside its own range the model returns the incoming value");
      }
    sym_reach("end");
  }

  template <class M> void check_uniform_G(unsigned long surf, unsigned long k)
  {
    prm.set_len("compositions", 1); prm.set_len("rotation matrices", 1); prm.set_len("Euler angles z-x-z", 1); prm.set_len("grain sizes", 1);
    World *w; std::vector<Point<2>> coords; M *m = build<M>(w, coords, surf);
    const Point<3> pos(sym_f64("x"), sym_f64("y"), sym_f64("z"), cartesian); const Objects::NaturalCoordinate nc(pos, *w->parameters.coordinate_system);
    const double depth = sym_f64("depth"); const unsigned number = sym_u32("number");
    WorldBuilder::grains old; old.sizes.resize(k); old.rotation_matrices.resize(k);
    for (unsigned i = 0; i < k; ++i) { old.sizes[i] = sym_f64("gs"); for (unsigned r = 0; r < 9; ++r) old.rotation_matrices[i][r/3][r%3] = sym_f64("gr"); }
    sym_freeze(); sym_allow(&env);
    const WorldBuilder::grains G = m->M::get_grains(pos, nc, depth, number, old, sym_f64("fmin"), sym_f64("fmax"));
    sym_assert(sym_writes() == 0, "the model query stores only to fresh memory");
    double lmin, lmax; const bool in = in_model_range(m, depth, surf, lmin, lmax);
    sym_assert(G.sizes.size() == k && G.rotation_matrices.size() == k, "grain count is preserved");
    const bool apply = in && m->compositions.size() == 1 && m->compositions[0] == number;
    for (unsigned i = 0; i < k && i < G.sizes.size(); ++i)
      {
        if (apply)
          {
            if (m->grain_sizes[0] >= 0) sym_assert(sym_eq(G.sizes[i], m->grain_sizes[0]), "uniform grains: fixed grain sizes are returned as given");
            else sym_assert(sym_eq(G.sizes[i] * double(k), 1.0), "uniform grains: a negative size means equal shares summing to one");
            for (unsigned r = 0; r < 9; ++r) sym_assert(sym_eq(G.rotation_matrices[i][r/3][r%3], m->rotation_matrices[0][r/3][r%3]), "uniform grains: every grain gets the configured orientation");
          }
        else
          {
            sym_assert(sym_eq(G.sizes[i], old.sizes[i]), "grains untouched outside the range / for other compositions");
            for (unsigned r = 0; r < 9; ++r) sym_assert(sym_eq(G.rotation_matrices[i][r/3][r%3], old.rotation_matrices[i][r/3][r%3]), "grain orientations untouched outside the range / for other compositions");
          }
      }
    sym_reach("end");
  }

  // C20: linear models stay between their boundary temperatures and attain them at the model's own top and bottom
  template <class M> void check_linear_env(unsigned long surf, unsigned long mode)
  {
    World *w; std::vector<Point<2>> coords; M *m = build<M>(w, coords, surf);
    const Point<3> pos(sym_f64("x"), sym_f64("y"), sym_f64("z"), cartesian); const Objects::NaturalCoordinate nc(pos, *w->parameters.coordinate_system);
    const double depth = sym_f64("depth"), old = sym_f64("Told"), g = sym_f64("gravity"), fmin = sym_f64("fmin"), fmax = sym_f64("fmax");
    sym_assume(fmin >= 0 && fmax >= fmin && depth >= fmin && depth <= fmax);
    sym_assume(m->operation == Operations::REPLACE && m->top_temperature >= 0 && m->bottom_temperature >= m->top_temperature);     // physically ordered end members
    sym_freeze(); sym_allow(&env);
    const double T = m->M::get_temperature(pos, nc, depth, g, old, fmin, fmax);
    sym_assert(sym_writes() == 0, "the model query stores only to fresh memory");
    double lmin, lmax; const bool in = in_model_range(m, depth, surf, lmin, lmax);
    if (!in) { sym_reach("end-out"); return; }
    const double top_d = std::max(fmin, lmin), bot_d = std::min(fmax, lmax);
    sym_assume(bot_d - top_d >= 1e-9);
    if (mode == 0) sym_assert(T >= m->top_temperature && T <= m->bottom_temperature, "linear model stays between its two boundary temperatures");
    else
      {
        if (depth == top_d) sym_assert(sym_eq(T, m->top_temperature), "linear model attains the top temperature at its own top");
        if (depth == bot_d) sym_assert(sym_eq(T, m->bottom_temperature), "linear model attains the bottom temperature at its own bottom");
      }
    sym_reach("end");
  }
}

#define FAMILIES(FN, KIND, MODEL, ...) \
  switch (family) { case 0: FN<CP::KIND::MODEL>(__VA_ARGS__); break; case 1: FN<OP::KIND::MODEL>(__VA_ARGS__); break; default: FN<ML::KIND::MODEL>(__VA_ARGS__); }

extern "C" void h_c05_uniform_T(unsigned long family, unsigned long surf) { FAMILIES(check_uniform_T, Temperature, Uniform, surf) }
extern "C" void h_c05_adiabatic_T(unsigned long family, unsigned long surf) { FAMILIES(check_adiabatic_T, Temperature, Adiabatic, surf) }
extern "C" void h_c05_adiabatic_sentinels(unsigned long family) { FAMILIES(check_adiabatic_sentinels, Temperature, Adiabatic) }
extern "C" void h_c05_linear_T(unsigned long family, unsigned long surf) { FAMILIES(check_linear_T, Temperature, Linear, surf) }
extern "C" void h_c05_chapman_T(unsigned long surf) { check_chapman_T<CP::Temperature::Chapman>(surf); }
extern "C" void h_c05_uniform_C(unsigned long family, unsigned long surf, unsigned long n) { FAMILIES(check_uniform_C, Composition, Uniform, surf, n) }
extern "C" void h_c05_uniform_V(unsigned long family, unsigned long surf) { FAMILIES(check_uniform_V, Velocity, UniformRaw, surf) }
extern "C" void h_c05_uniform_G(unsigned long family, unsigned long surf, unsigned long k) { FAMILIES(check_uniform_G, Grains, Uniform, surf, k) }
extern "C" void h_c20_linear(unsigned long family, unsigned long surf, unsigned long mode) { FAMILIES(check_linear_env, Temperature, Linear, surf, mode) }
