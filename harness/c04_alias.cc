// C04.alias: longitude alias rule of the spherical polygon test (the implementation is a recording stub here).
#include "common.h"
#include "world_builder/utilities.h"
using namespace H;
// spherical wrapper: result = impl(p) or impl(p with longitude +2pi if negative else -2pi); Cartesian: impl(p)
namespace { struct { unsigned calls; double x[2], y[2]; bool r[2]; unsigned n[2]; } rec; }
extern "C" bool __wrap__ZN12WorldBuilder9Utilities37polygon_contains_point_implementationERKSt6vectorINS_5PointILj2EEESaIS3_EERKS3_
(const std::vector<Point<2>> *poly, const Point<2> *p)
{
  const unsigned i = rec.calls < 2 ? rec.calls : 1;
  rec.x[i] = (*p)[0]; rec.y[i] = (*p)[1]; rec.n[i] = unsigned(poly->size()); rec.r[i] = sym_bool("impl"); ++rec.calls;
  return rec.r[i];
}
extern "C" void h_c04_alias(unsigned long spherical_cs)
{
  std::vector<Point<2>> poly(3, Point<2>(0, 0, spherical_cs ? spherical : cartesian));
  const double x = sym_f64("lon"), y = sym_f64("lat");
  const bool got = Utilities::polygon_contains_point(poly, Point<2>(x, y, spherical_cs ? spherical : cartesian));
  if (!spherical_cs)
    sym_assert(rec.calls == 1 && got == rec.r[0] && sym_same(rec.x[0], x) && sym_same(rec.y[0], y) && rec.n[0] == 3, "Cartesian: the test is the plain polygon test of the point");
  else
    {
      // oracle: inside iff the point or its 360-degree alias is inside
      const double other = x < 0 ? x + 2.0 * Consts::PI : x - 2.0 * Consts::PI;
      sym_assert(rec.calls >= 1 && sym_same(rec.x[0], x) && sym_same(rec.y[0], y), "spherical: the point itself is tested first");
      if (rec.calls == 1) sym_assert(got == rec.r[0] && rec.r[0], "spherical: the alias may only be skipped when the point itself is inside");
      else sym_assert(rec.calls == 2 && sym_same(rec.x[1], other) && sym_same(rec.y[1], y) && got == (rec.r[0] || rec.r[1]), "spherical: inside iff the point or its longitude alias (+2pi if negative, else -2pi) is inside");
    }
  sym_reach("end");
}

