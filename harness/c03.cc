// C03: background state outside every feature; forced surface temperature.
#include "common.h"
#include <cmath>
#include <limits>
using namespace H;

// no feature covers the point: background adiabat, zeros, tag -1
extern "C" void h_c03_bg(unsigned long L, unsigned long nfeat, unsigned long spherical_cs, unsigned long two_d)
{
  World *w = make_world(static_cast<unsigned>(nfeat), spherical_cs != 0);
  for (auto &f : w->parameters.features) sym_assume(!static_cast<StubFeature *>(f.get())->inside);
  sym_assume(!w->force_surface_temperature);
  sym_assume(w->specific_heat != 0);
  if (two_d) make_2d(w);
  const std::vector<Prop> props = make_request(static_cast<unsigned>(L), 2);
  const double depth = sym_f64("depth");
  const std::array<double,3> p3 = {{sym_f64("x"), sym_f64("y"), sym_f64("z")}};
  const std::array<double,2> p2 = {{p3[0], p3[2]}};
  const std::vector<double> r = two_d ? w->properties(p2, depth, props) : w->properties(p3, depth, props);
  const double g = static_cast<GravityModel::Uniform *>(w->parameters.gravity_model.get())->gravity_magnitude;
  // oracle, written from the statement: Tp * exp(alpha * g * depth / cp)
  const double Tbg = w->potential_mantle_temperature * std::exp(w->thermal_expansion_coefficient * g * depth / w->specific_heat);
  unsigned off = 0;
  for (unsigned i = 0; i < props.size(); ++i)
    {
      const unsigned wd = width_of(props[i]);
      sym_assert(off + wd <= r.size(), "answer is long enough");
      if (off + wd > r.size()) break;
      switch (props[i][0])
        {
          case 1: sym_assert(sym_eq(r[off], Tbg), "background temperature is the adiabat"); break;
          case 2: sym_assert(r[off] == 0.0, "background composition is zero"); break;
          case 3: for (unsigned s = 0; s < wd; ++s) sym_assert(r[off+s] == 0.0, "background grains are zero"); break;
          case 4: sym_assert(r[off] == -1.0, "background tag is -1"); break;
          case 5: for (unsigned s = 0; s < 3; ++s) sym_assert(r[off+s] == 0.0, "background velocity is zero"); break;
        }
      off += wd;
    }
  sym_reach("end");
}

// force surface temperature: at depth zero every temperature entry is the surface temperature, covered or not, batched or not
extern "C" void h_c03_force(unsigned long L, unsigned long nfeat, unsigned long two_d)
{
  World *w = make_world(static_cast<unsigned>(nfeat));
  if (two_d) make_2d(w);
  const std::vector<Prop> props = make_request(static_cast<unsigned>(L), 2);
  const double depth = sym_f64("depth");
  const std::array<double,3> p3 = {{sym_f64("x"), sym_f64("y"), sym_f64("z")}};
  const std::array<double,2> p2 = {{p3[0], p3[2]}};
  const std::vector<double> r = two_d ? w->properties(p2, depth, props) : w->properties(p3, depth, props);
  const bool forced = w->force_surface_temperature && depth == 0.0;
  unsigned off = 0;
  for (unsigned i = 0; i < props.size(); ++i)
    {
      if (off >= r.size()) break;
      if (props[i][0] == 1)
        {
          if (forced) sym_assert(sym_same(r[off], w->surface_temperature), "forced surface temperature at depth zero");
          else if (!w->force_surface_temperature)
            {
              // without the flag the temperature entry is what the last covering feature painted, or the background
              bool covered = false; unsigned last = 0;
              for (unsigned f = 0; f < w->parameters.features.size(); ++f)
                if (static_cast<StubFeature *>(w->parameters.features[f].get())->inside) { covered = true; last = f; }
              if (covered) sym_assert(sym_same(r[off], sym_ufi(last, 1, props[i][1], props[i][2], 0)), "without the flag the last covering feature decides");
            }
        }
      off += width_of(props[i]);
    }
  sym_reach("end");
}

// gravity model: the norm is the configured magnitude at every point
extern "C" void h_c03_gravity(void)
{
  World *w = make_world(0);
  const Point<3> p(sym_f64("x"), sym_f64("y"), sym_f64("z"), cartesian);
  const double g = static_cast<GravityModel::Uniform *>(w->parameters.gravity_model.get())->gravity_magnitude;
  sym_assert(sym_same(w->parameters.gravity_model->gravity_norm(p), g), "gravity norm is the configured magnitude");
  sym_reach("end");
}
