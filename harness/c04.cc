// C04 / C19.poly: polygon test vs. the winding-number definition (exact arithmetic on a lattice), longitude alias rule,
// memory safety of the polygon test for arbitrary doubles.
#include "common.h"
#include "world_builder/utilities.h"
#include <cmath>
using namespace H;

namespace
{
  // coordinate = lattice value in [-B, B], carried as a double (every intermediate of the test is an exact small integer)
  double lattice(const char *name, long B)
  {
    const double v = sym_f64(name);
    bool ok = false;
    for (long k = -B; k <= B; ++k) ok = ok || v == double(k);
    sym_assume(ok);
    return v;
  }
  double cross(const double ax, const double ay, const double bx, const double by, const double px, const double py)
  { return (bx - ax) * (py - ay) - (px - ax) * (by - ay); }
  // textbook definition: on a closed edge, or non-zero winding number (half-open crossing rule)
  bool definition(const std::vector<Point<2>> &poly, const double px, const double py)
  {
    const size_t n = poly.size(); long wn = 0;
    for (size_t i = 0; i < n; ++i)
      {
        const double ax = poly[i][0], ay = poly[i][1], bx = poly[(i+1)%n][0], by = poly[(i+1)%n][1];
        const double c = cross(ax, ay, bx, by, px, py);
        if (c == 0)
          {
            const double dot = (px - ax) * (bx - ax) + (py - ay) * (by - ay), len2 = (bx - ax) * (bx - ax) + (by - ay) * (by - ay);
            if (dot >= 0 && dot <= len2) return true;
          }
        if (ay <= py) { if (by > py && c > 0) ++wn; }
        else          { if (by <= py && c < 0) --wn; }
      }
    return wn != 0;
  }
  bool segments_cross(const Point<2> &a, const Point<2> &b, const Point<2> &c, const Point<2> &d)
  {
    // closed segments ab and cd share a point (general + collinear cases), exact arithmetic
    const double d1 = cross(a[0], a[1], b[0], b[1], c[0], c[1]), d2 = cross(a[0], a[1], b[0], b[1], d[0], d[1]);
    const double d3 = cross(c[0], c[1], d[0], d[1], a[0], a[1]), d4 = cross(c[0], c[1], d[0], d[1], b[0], b[1]);
    if (((d1 > 0 && d2 < 0) || (d1 < 0 && d2 > 0)) && ((d3 > 0 && d4 < 0) || (d3 < 0 && d4 > 0))) return true;
    auto on = [](const Point<2> &p, const Point<2> &q, const Point<2> &r, double cr)
    { return cr == 0 && std::min(p[0], q[0]) <= r[0] && r[0] <= std::max(p[0], q[0]) && std::min(p[1], q[1]) <= r[1] && r[1] <= std::max(p[1], q[1]); };
    return on(a, b, c, d1) || on(a, b, d, d2) || on(c, d, a, d3) || on(c, d, b, d4);
  }
}

// triangles (either orientation) on the lattice [-B,B]^2, any lattice query point
extern "C" void h_c04_poly3(unsigned long B)
{
  std::vector<Point<2>> poly;
  for (unsigned i = 0; i < 3; ++i) { const double x = lattice("vx", long(B)), y = lattice("vy", long(B)); poly.emplace_back(x, y, cartesian); }
  const double area2 = cross(poly[0][0], poly[0][1], poly[1][0], poly[1][1], poly[2][0], poly[2][1]);
  sym_assume(area2 != 0);                                   // simple polygon: non-degenerate triangle
  const double px = lattice("px", long(B)), py = lattice("py", long(B));
  const bool got = Utilities::polygon_contains_point(poly, Point<2>(px, py, cartesian));
  const bool want = definition(poly, px, py);
  sym_assert(got == want, "polygon test equals the closed winding-number definition (triangle)");
  sym_reach("end");
}

// simple quadrilaterals (convex and concave, either orientation) on the lattice
extern "C" void h_c04_poly4(unsigned long B)
{
  std::vector<Point<2>> poly;
  for (unsigned i = 0; i < 4; ++i) { const double x = lattice("vx", long(B)), y = lattice("vy", long(B)); poly.emplace_back(x, y, cartesian); }
  // simple: non-adjacent edges do not meet, adjacent edges are not collinear-overlapping (no zero or straight angles back), vertices distinct
  sym_assume(!segments_cross(poly[0], poly[1], poly[2], poly[3]) && !segments_cross(poly[1], poly[2], poly[3], poly[0]));
  for (unsigned i = 0; i < 4; ++i)
    {
      const Point<2> &a = poly[i], &b = poly[(i+1)%4], &c = poly[(i+2)%4];
      sym_assume(!(a[0] == b[0] && a[1] == b[1]));
      const double cr = cross(a[0], a[1], b[0], b[1], c[0], c[1]);
      const double dot = (a[0] - b[0]) * (c[0] - b[0]) + (a[1] - b[1]) * (c[1] - b[1]);
      sym_assume(!(cr == 0 && dot > 0));                    // no spike (edge folding back onto the previous one)
    }
  const double px = lattice("px", long(B)), py = lattice("py", long(B));
  const bool got = Utilities::polygon_contains_point(poly, Point<2>(px, py, cartesian));
  const bool want = definition(poly, px, py);
  sym_assert(got == want, "polygon test equals the closed winding-number definition (quadrilateral)");
  sym_reach("end");
}

// a point on edge k of an N-gon is inside whatever the other edges are (local lemma, N <= 5, lattice coordinates)
extern "C" void h_c04_edge(unsigned long N, unsigned long B)
{
  std::vector<Point<2>> poly;
  for (unsigned i = 0; i < N; ++i) { const double x = lattice("vx", long(B)), y = lattice("vy", long(B)); poly.emplace_back(x, y, cartesian); }
  const double px = lattice("px", long(B)), py = lattice("py", long(B));
  const Point<2> &a = poly[0], &b = poly[1];
  sym_assume(!(a[0] == b[0] && a[1] == b[1]));
  const double c = cross(a[0], a[1], b[0], b[1], px, py);
  const double dot = (px - a[0]) * (b[0] - a[0]) + (py - a[1]) * (b[1] - a[1]), len2 = (b[0] - a[0]) * (b[0] - a[0]) + (b[1] - a[1]) * (b[1] - a[1]);
  sym_assume(c == 0 && dot >= 0 && dot <= len2);            // the query point lies on the closed edge 0-1
  // no repeated consecutive vertices (degenerate input outside "simple polygon")
  for (unsigned i = 0; i < N; ++i) sym_assume(!(poly[i][0] == poly[(i+1)%N][0] && poly[i][1] == poly[(i+1)%N][1]));
  sym_assert(Utilities::polygon_contains_point(poly, Point<2>(px, py, cartesian)), "a point on an edge is inside");
  sym_reach("end");
}

// memory safety and termination for arbitrary doubles (NaN, infinities) and any list length 0..N
extern "C" void h_c04_polysafe(unsigned long N)
{
  std::vector<Point<2>> poly;
  for (unsigned i = 0; i < N; ++i) poly.emplace_back(sym_f64("vx"), sym_f64("vy"), cartesian);
  const bool got = Utilities::polygon_contains_point_implementation(poly, Point<2>(sym_f64("px"), sym_f64("py"), cartesian));
  sym_assert(got || !got, "polygon test terminates without touching memory outside the list");
  sym_reach("end");
}
