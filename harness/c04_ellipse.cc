// C04.ellipse: fraction_from_ellipse_center = x'^2/a^2 + y'^2/(a^2 (1-e^2)) with (x',y') the offset rotated by theta.
#include "common.h"
#include "world_builder/utilities.h"
#include <cmath>
using namespace H;
extern "C" void h_c04_ellipse(void)
{
  const double cx = sym_f64("cx"), cy = sym_f64("cy"), a = sym_f64("a"), e = sym_f64("e"), th = sym_f64("theta"), px = sym_f64("px"), py = sym_f64("py");
  sym_assume(e >= 0 && e <= 0.99999 && a >= 1e-200);      // non-degenerate axes (below 10*DBL_MIN the function documents a zero result)
  const double got = Utilities::fraction_from_ellipse_center(Point<2>(cx, cy, cartesian), a, e, th, Point<2>(px, py, cartesian));
  const double co = std::cos(th), si = std::sin(th);
  const double xr = (px - cx) * co + (py - cy) * si, yr = -(px - cx) * si + (py - cy) * co;
  const double want = xr * xr / (a * a) + yr * yr / (a * a * (1 - e * e));
  sym_assert(sym_eq(got, want), "relative distance from the ellipse centre is x'^2/a^2 + y'^2/b^2");
  sym_reach("end");
}
