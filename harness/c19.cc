// C19: geometric kernels vs. their definitions: kd-tree nearest search, Bezier end points, great-circle distance.
#include "common.h"
#include "world_builder/kd_tree.h"
#include "world_builder/objects/bezier_curve.h"
#include "world_builder/utilities.h"
#include <cmath>
using namespace H;

// nearest-centroid search: build the tree with the real create_tree (libstdc++ nth_element) from arbitrary points,
// then the reported node is at the true minimum distance and the reported distance is that distance
extern "C" void h_c19_kd(unsigned long N, unsigned long variant)
{
  std::vector<KDTree::Node> nodes;
  for (unsigned i = 0; i < N; ++i)
    {
      const double x = sym_f64("nx"), y = sym_f64("ny"); sym_assume(x >= -1e8 && x <= 1e8 && y >= -1e8 && y <= 1e8);      // coordinates of geodynamic size
      nodes.emplace_back(i, x, y);
    }
  KDTree::KDTree tree(nodes);
  tree.create_tree(0, N - 1, false);
  const double px = sym_f64("px"), py = sym_f64("py"); sym_assume(px >= -1e8 && px <= 1e8 && py >= -1e8 && py <= 1e8);
  size_t index; double dist;
  if (variant == 0) { const KDTree::IndexDistance r = tree.find_closest_point(Point<2>(px, py, cartesian)); index = r.index; dist = r.distance; }
  else { const KDTree::IndexDistances r = tree.find_closest_points(Point<2>(px, py, cartesian)); index = r.min_index; dist = r.min_distance; }
  const std::vector<KDTree::Node> &t = tree.get_nodes();
  sym_assert(t.size() == N && index < N, "the tree keeps all nodes and reports a valid index");
  if (index >= N) return;
  const double bx = t[index].x - px, by = t[index].y - py, best2 = bx * bx + by * by;
  for (unsigned j = 0; j < N; ++j)
    {
      const double dx = t[j].x - px, dy = t[j].y - py;
      sym_assert(best2 <= dx * dx + dy * dy, "no node is closer than the reported one");
    }
  sym_assert(dist >= 0 && sym_eq(dist * dist, best2), "the reported distance is the Euclidean distance to the reported node");
  sym_reach("end");
}

// the trench curve passes through its coordinates: B_i(0) = p_i, B_i(1) = p_{i+1}
extern "C" void h_c19_bezier_ends(unsigned long n)
{
  alignas(Objects::BezierCurve) static unsigned char buf[sizeof(Objects::BezierCurve)];
  auto *b = reinterpret_cast<Objects::BezierCurve *>(buf);
  new (&b->points) std::vector<Point<2>>(); new (&b->control_points) std::vector<std::array<Point<2>,2>>();
  for (unsigned i = 0; i <= n; ++i) b->points.emplace_back(sym_f64("px"), sym_f64("py"), cartesian);
  for (unsigned i = 0; i < n; ++i) b->control_points.push_back({{Point<2>(sym_f64("c0x"), sym_f64("c0y"), cartesian), Point<2>(sym_f64("c1x"), sym_f64("c1y"), cartesian)}});
  for (unsigned i = 0; i < n; ++i)
    {
      const Point<2> a = (*b)(i, 0.0), e = (*b)(i, 1.0);
      sym_assert(sym_eq(a[0], b->points[i][0]) && sym_eq(a[1], b->points[i][1]), "curve segment starts at its coordinate");
      sym_assert(sym_eq(e[0], b->points[i+1][0]) && sym_eq(e[1], b->points[i+1][1]), "curve segment ends at the next coordinate");
    }
  sym_reach("end");
}

// same-depth distance on the sphere = r * acos(clamp(unit vectors' dot product, -1, 1)), for any pair of points
extern "C" void h_c19_great_circle(void)
{
  World *w = make_world(0, true);
  const double r = sym_f64("radius"), lon1 = sym_f64("lon1"), lat1 = sym_f64("lat1"), lon2 = sym_f64("lon2"), lat2 = sym_f64("lat2");
  sym_assume(r > 0);
  const Point<3> p1(r, lon1, lat1, spherical), p2(r, lon2, lat2, spherical);
  const double got = w->parameters.coordinate_system->distance_between_points_at_same_depth(p1, p2);
  const Point<3> c1 = Utilities::spherical_to_cartesian_coordinates(p1.get_array()), c2 = Utilities::spherical_to_cartesian_coordinates(p2.get_array());
  const double c = std::min(1., std::max(-1., (c1[0] * c2[0] + c1[1] * c2[1] + c1[2] * c2[2]) / (r * r)));      // clamp(dot, -1, 1)
  sym_assert(sym_eq(got, r * std::acos(c)), "same-depth distance is the great-circle distance r*acos(p1.p2/r^2), also beyond 90 degrees");
  sym_reach("end");
}

// Cartesian -> spherical -> Cartesian returns the point (exact-real reading; acos/atan2/sin/cos uninterpreted, related only by the
// inverse-function contracts cos(acos t) = t, sin(acos t) = sqrt(1-t^2), h cos(atan2(y,x)) = x, h sin(atan2(y,x)) = y with h = sqrt(x^2+y^2)).
// Also: the radius is the Euclidean norm, longitude in [-pi,pi], latitude in [-pi/2,pi/2].
extern "C" void h_c19_roundtrip(void)
{
  const double x = sym_f64("x"), y = sym_f64("y"), z = sym_f64("z");
  sym_assume(x * x + y * y + z * z > 1e-200);         // off the centre: radius above 1e-100 (the code switches the latitude to 0 at radii up to DBL_MIN)
  const Point<3> p(x, y, z, cartesian);
  const std::array<double,3> s = Utilities::cartesian_to_spherical_coordinates(p);
  sym_assert(s[0] >= 0 && sym_eq(s[0] * s[0], x * x + y * y + z * z), "the radius is the Euclidean norm");
  sym_assert(s[1] >= -Consts::PI && s[1] <= Consts::PI && s[2] >= -Consts::PI / 2 && s[2] <= Consts::PI / 2, "longitude lies in [-pi,pi], latitude in [-pi/2,pi/2]");
  const Point<3> q = Utilities::spherical_to_cartesian_coordinates(s);
  sym_assert(sym_eq(q[0], x) && sym_eq(q[1], y) && sym_eq(q[2], z), "Cartesian -> spherical -> Cartesian returns the point");
  sym_reach("end");
}
