// Frame / guard harness shared by the area features (continental plate, oceanic plate, mantle layer):
// the feature object lives in raw storage, its extent predicates are environment stubs
// (polygon test -> fresh Boolean, depth surfaces -> fresh values), its models are stubs whose result is an
// uninterpreted function of (model id, depth, incoming value, local min/max depth).
#ifndef WB_VERIF_FRAME_AREA_H
#define WB_VERIF_FRAME_AREA_H
#include "common.h"
#include "world_builder/grains.h"
#include "world_builder/objects/surface.h"
namespace H
{
  struct Env { bool poly_called; bool poly_result; double poly_x, poly_y; int poly_cs; unsigned poly_n; unsigned surf_calls; double surf_value[2]; double surf_x[2], surf_y[2]; };
  static Env env;
}
// polygon test: arbitrary answer, arguments recorded
extern "C" bool __wrap__ZN12WorldBuilder9Utilities22polygon_contains_pointERKSt6vectorINS_5PointILj2EEESaIS3_EERKS3_
(const std::vector<WorldBuilder::Point<2>> *poly, const WorldBuilder::Point<2> *p)
{
  H::env.poly_called = true; H::env.poly_x = (*p)[0]; H::env.poly_y = (*p)[1]; H::env.poly_cs = p->get_coordinate_system(); H::env.poly_n = static_cast<unsigned>(poly->size());
  H::env.poly_result = sym_bool("P");
  return H::env.poly_result;
}
// variable depth surfaces: arbitrary interpolated value (what it is is C11's subject)
extern "C" WorldBuilder::Objects::SurfaceValueInfo __wrap__ZNK12WorldBuilder7Objects7Surface11local_valueERKNS_5PointILj2EEE
(const WorldBuilder::Objects::Surface *, const WorldBuilder::Point<2> *p)
{
  const unsigned i = H::env.surf_calls < 2 ? H::env.surf_calls : 1;
  H::env.surf_value[i] = sym_f64("surface"); H::env.surf_x[i] = (*p)[0]; H::env.surf_y[i] = (*p)[1]; ++H::env.surf_calls;
  return WorldBuilder::Objects::SurfaceValueInfo(0, H::env.surf_value[i], 0., 0.);
}
namespace H
{
  template <class I> struct StubT final : I
  {
    unsigned id;
    void parse_entries(Parameters &, const std::vector<Point<2>> &) override {}
    double get_temperature(const Point<3> &, const Objects::NaturalCoordinate &, const double depth, const double, double t, const double fmin, const double fmax) const override
    { return sym_uf4(100+id, depth, t, fmin, fmax); }
  };
  template <class I> struct StubC final : I
  {
    unsigned id;
    void parse_entries(Parameters &, const std::vector<Point<2>> &) override {}
    double get_composition(const Point<3> &, const Objects::NaturalCoordinate &, const double depth, const unsigned int n, double c, const double fmin, const double fmax) const override
    { return sym_uf4(200+id+10*n, depth, c, fmin, fmax); }
  };
  template <class I> struct StubG final : I
  {
    unsigned id;
    void parse_entries(Parameters &, const std::vector<Point<2>> &) override {}
    WorldBuilder::grains get_grains(const Point<3> &, const Objects::NaturalCoordinate &, const double depth, const unsigned int n, WorldBuilder::grains g, const double fmin, const double fmax) const override
    {
      for (unsigned i = 0; i < g.sizes.size(); ++i)
        {
          g.sizes[i] = sym_uf4(300+id+10*n, depth, g.sizes[i], fmin, fmax);
          for (unsigned r = 0; r < 9; ++r) g.rotation_matrices[i][r/3][r%3] = sym_uf4(400+id+10*n, depth, g.rotation_matrices[i][r/3][r%3], fmin, fmax);
        }
      return g;
    }
  };
  template <class I> struct StubV final : I
  {
    unsigned id;
    void parse_entries(Parameters &, const std::vector<Point<2>> &) override {}
    std::array<double,3> get_velocity(const Point<3> &, const Objects::NaturalCoordinate &, const double depth, const double, std::array<double,3> v, const double fmin, const double fmax) const override
    { return {{sym_uf4(500+id, depth, v[0], fmin, fmax), sym_uf4(510+id, depth, v[1], fmin, fmax), sym_uf4(520+id, depth, v[2], fmin, fmax)}}; }
  };

  // counts = nT + 3*nC + 9*nG + 27*nV (each 0..2); surf = 0 constant depths, 1 variable min, 2 variable max, 3 both
  template <class F, class TI, class CI, class GI, class VI>
  void area_frame(unsigned long L, unsigned long counts, unsigned long surf, unsigned long spherical_cs)
  {
    alignas(F) static unsigned char fbuf[sizeof(F)];
    World *w = make_world(0, spherical_cs != 0);
    F *f = reinterpret_cast<F *>(fbuf);
    f->world = w; f->tag_index = 7;
    new (&f->coordinates) std::vector<Point<2>>(3, Point<2>(0, 0, spherical_cs ? spherical : cartesian));
    f->min_depth = sym_f64("min"); f->max_depth = sym_f64("max");
    f->min_depth_surface.constant_value = !(surf & 1); f->max_depth_surface.constant_value = !(surf & 2);
    new (&f->temperature_models) std::vector<std::unique_ptr<TI>>();
    new (&f->composition_models) std::vector<std::unique_ptr<CI>>();
    new (&f->grains_models) std::vector<std::unique_ptr<GI>>();
    new (&f->velocity_models) std::vector<std::unique_ptr<VI>>();
    const unsigned nT = counts % 3, nC = (counts / 3) % 3, nG = (counts / 9) % 3, nV = (counts / 27) % 3;
    for (unsigned i = 0; i < nT; ++i) { auto *m = new StubT<TI>(); m->id = i; f->temperature_models.emplace_back(m); }
    for (unsigned i = 0; i < nC; ++i) { auto *m = new StubC<CI>(); m->id = i; f->composition_models.emplace_back(m); }
    for (unsigned i = 0; i < nG; ++i) { auto *m = new StubG<GI>(); m->id = i; f->grains_models.emplace_back(m); }
    for (unsigned i = 0; i < nV; ++i) { auto *m = new StubV<VI>(); m->id = i; f->velocity_models.emplace_back(m); }
    const Point<3> pos(sym_f64("x"), sym_f64("y"), sym_f64("z"), cartesian);
    const Objects::NaturalCoordinate nc(pos, *w->parameters.coordinate_system);
    const double depth = sym_f64("depth"), g = sym_f64("gravity");
    const std::vector<Prop> props = make_request(static_cast<unsigned>(L), 1);
    std::vector<size_t> entry; std::vector<double> out;
    for (unsigned i = 0; i < props.size(); ++i)
      {
        entry.push_back(out.size());
        for (unsigned s = 0; s < width_of(props[i]); ++s) out.push_back(sym_f64("old"));
      }
    out.push_back(sym_f64("guard"));                       // one slot past the request: must never change
    const std::vector<double> old = out;
    env = Env();
    sym_freeze(); sym_allow(&env); sym_allow(out.data());
    f->F::properties(pos, nc, depth, props, g, entry, out);
    sym_assert(sym_writes() == 0, "the feature query stores only to fresh memory and the caller's output vector");

    // ---- oracle, from the statement: inside <=> polygon(surface position) and min <= depth <= max (global and local, closed)
    const bool in_global = depth <= f->max_depth && depth >= f->min_depth;
    sym_assert(env.poly_called || !in_global, "polygon test is consulted whenever the depth is in the global closed range");
    if (env.poly_called)
      {
        const std::array<double,2> sc = nc.get_surface_coordinates();
        sym_assert(sym_same(env.poly_x, sc[0]) && sym_same(env.poly_y, sc[1]) && env.poly_cs == (spherical_cs ? spherical : cartesian) && env.poly_n == 3,
                   "polygon test receives the feature polygon and the query's natural surface position");
      }
    bool inside = in_global && env.poly_called && env.poly_result;
    double lmin = f->min_depth, lmax = f->max_depth;
    if (inside)
      {
        unsigned c = 0;
        if (surf & 1) { sym_assert(env.surf_calls > c, "variable min depth surface is evaluated"); lmin = env.surf_value[c]; ++c; }
        if (surf & 2) { sym_assert(env.surf_calls > c, "variable max depth surface is evaluated"); lmax = env.surf_value[c]; ++c; }
        inside = depth <= lmax && depth >= lmin;
      }
    for (unsigned i = 0; i < props.size(); ++i)
      {
        const size_t e = entry[i];
        if (!inside)
          {
            for (unsigned s = 0; s < width_of(props[i]); ++s) sym_assert(sym_same(out[e+s], old[e+s]), "a feature that does not contain the point changes nothing");
            continue;
          }
        switch (props[i][0])
          {
            case 1:
            {
              double v = old[e];
              for (unsigned m = 0; m < nT; ++m) v = sym_uf4(100+m, depth, v, lmin, lmax);
              sym_assert(sym_same(out[e], v), "temperature is the chain of the feature's models in list order (unchanged without models)");
              break;
            }
            case 2:
            {
              double v = old[e];
              for (unsigned m = 0; m < nC; ++m) v = sym_uf4(200+m+10*props[i][1], depth, v, lmin, lmax);
              sym_assert(sym_same(out[e], v), "composition is the chain of the feature's models in list order (unchanged without models)");
              break;
            }
            case 3:
            {
              const unsigned k = props[i][2];
              for (unsigned q = 0; q < 10*k; ++q)
                {
                  double v = old[e+q];
                  for (unsigned m = 0; m < nG; ++m) v = sym_uf4((q < k ? 300 : 400)+m+10*props[i][1], depth, v, lmin, lmax);
                  sym_assert(sym_same(out[e+q], v), "grains are the chain of the feature's models in list order (unchanged without models)");
                }
              break;
            }
            case 4: sym_assert(out[e] == 7.0, "tag is the feature's own index"); break;
            case 5:
            {
              if (nV == 0) break;       // velocity without velocity models is not covered by the statement
              for (unsigned q = 0; q < 3; ++q)
                {
                  double v = 0.0;
                  for (unsigned m = 0; m < nV; ++m) v = sym_uf4(500+10*q+m, depth, v, lmin, lmax);
                  sym_assert(sym_same(out[e+q], v), "velocity is the chain of the feature's velocity models");
                }
              break;
            }
          }
      }
    sym_assert(sym_same(out.back(), old.back()) && out.size() == old.size(), "nothing outside the requested slots is written");
    sym_reach("end");
  }
}
#endif
