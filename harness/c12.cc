// C12 (post-JSON validation units): list-valued parameters of inconsistent length must be rejected by an exception -
// never lead to out-of-bounds accesses or uninitialised values in a later query.  The real parse_entries() is driven
// with the Parameters stub delivering lists of the lengths given as case arguments; then one query is made.
#include "common.h"
#include "prm_stub.h"
#include "world_builder/features/plume.h"
#include "world_builder/features/plume_models/temperature/gaussian.h"
#include "world_builder/features/plume_models/temperature/interface.h"
#include "world_builder/features/plume_models/composition/interface.h"
#include "world_builder/features/plume_models/grains/interface.h"
#include "world_builder/features/plume_models/velocity/interface.h"
#include "world_builder/features/continental_plate_models/velocity/uniform_raw.h"
#include "world_builder/features/continental_plate_models/composition/uniform.h"
#include "world_builder/features/continental_plate_models/grains/uniform.h"
#include "world_builder/features/oceanic_plate_models/grains/uniform.h"
#include "world_builder/features/mantle_layer_models/grains/uniform.h"
#include "world_builder/features/oceanic_plate_models/temperature/half_space_model.h"
#include "world_builder/features/feature_utilities.h"
#include "world_builder/coordinate_systems/spherical.h"
#include "world_builder/features/oceanic_plate_models/composition/tian2019_water_content.h"
#include "world_builder/features/subducting_plate_models/composition/tian2019_water_content.h"
#include "world_builder/features/subducting_plate_models/temperature/mass_conserving.h"
using namespace H;
namespace PM = WorldBuilder::Features::PlumeModels;
namespace { unsigned n_coordinates = 0; }
extern "C" {
  // Features::Interface::get_coordinates: the feature gets n_coordinates arbitrary points
  void __wrap__ZN12WorldBuilder8Features9Interface15get_coordinatesERKNSt7__cxx1112basic_stringIcSt11char_traitsIcESaIcEEERNS_10ParametersENS_16CoordinateSystemE
  (Features::Interface *self, const std::string *, Parameters *, CoordinateSystem cs)
  { self->coordinates.clear(); for (unsigned i = 0; i < n_coordinates; ++i) self->coordinates.emplace_back(sym_f64("coordinate x"), sym_f64("coordinate y"), cs); }
  size_t __wrap__ZN12WorldBuilder8Features16FeatureUtilities17add_vector_uniqueERSt6vectorINSt7__cxx1112basic_stringIcSt11char_traitsIcESaIcEEESaIS8_EERKS8_(std::vector<std::string> *, const std::string *) { return 3; }
  bool __wrap__ZN12WorldBuilder10Parameters19get_unique_pointersINS_8Features11PlumeModels11Temperature9InterfaceEEEbRKNSt7__cxx1112basic_stringIcSt11char_traitsIcESaIcEEERSt6vectorISt10unique_ptrIT_St14default_deleteISG_EESaISJ_EE(Parameters *, const std::string *, void *) { return false; }
  bool __wrap__ZN12WorldBuilder10Parameters19get_unique_pointersINS_8Features11PlumeModels11Composition9InterfaceEEEbRKNSt7__cxx1112basic_stringIcSt11char_traitsIcESaIcEEERSt6vectorISt10unique_ptrIT_St14default_deleteISG_EESaISJ_EE(Parameters *, const std::string *, void *) { return false; }
  bool __wrap__ZN12WorldBuilder10Parameters19get_unique_pointersINS_8Features11PlumeModels6Grains9InterfaceEEEbRKNSt7__cxx1112basic_stringIcSt11char_traitsIcESaIcEEERSt6vectorISt10unique_ptrIT_St14default_deleteISG_EESaISJ_EE(Parameters *, const std::string *, void *) { return false; }
  bool __wrap__ZN12WorldBuilder10Parameters19get_unique_pointersINS_8Features11PlumeModels8Velocity9InterfaceEEEbRKNSt7__cxx1112basic_stringIcSt11char_traitsIcESaIcEEERSt6vectorISt10unique_ptrIT_St14default_deleteISG_EESaISJ_EE(Parameters *, const std::string *, void *) { return false; }
}

static void consistent_or_throw(const bool threw, const bool consistent, const char *what_ok, const char *what_bad)
{
  // inconsistent lists must be rejected; consistent ones must be accepted (a harness sanity check: the stub reaches the accept path)
  if (consistent) sym_assert(!threw, what_ok);
  else sym_assert(threw, what_bad);
}

// plume: coordinates / cross section depths / semi-major axis / eccentricity / rotation angles
extern "C" void h_c12_plume(unsigned long nc, unsigned long nd, unsigned long na, unsigned long ne, unsigned long nr)
{
  World *w = make_world(0);
  n_coordinates = unsigned(nc);
  prm.set_len("cross section depths", unsigned(nd)); prm.set_len("semi-major axis", unsigned(na)); prm.set_len("eccentricity", unsigned(ne)); prm.set_len("rotation angles", unsigned(nr));
  bool threw = false; Features::Plume *f = nullptr;
  try { f = new Features::Plume(w); f->parse_entries(w->parameters); }
  catch (...) { threw = true; }
  const bool consistent = nd == nc && na == nc && ne == nc && nr == nc && nc >= 1;
  consistent_or_throw(threw, consistent, "plume: consistent list lengths are accepted", "plume: lists whose lengths differ from the number of coordinates are rejected with an exception");
  if (!threw)
    {
      // whatever was accepted must be safe to query (the executor checks every access)
      const Point<3> pos(sym_f64("x"), sym_f64("y"), sym_f64("z"), cartesian); const Objects::NaturalCoordinate nc_(pos, *w->parameters.coordinate_system);
      const std::vector<Prop> props = {{{1,0,0}}, {{4,0,0}}}; const std::vector<size_t> entry = {0, 1}; std::vector<double> out = {sym_f64("T0"), -1.0};
      try { f->Features::Plume::properties(pos, nc_, sym_f64("depth"), props, sym_f64("gravity"), entry, out); } catch (...) {}
      sym_reach("queried");
    }
  sym_reach("end");
}

// plume gaussian temperature: depths / centerline temperatures / gaussian sigmas
extern "C" void h_c12_gaussian(unsigned long nd, unsigned long nt, unsigned long ns)
{
  World *w = make_world(0);
  prm.set_len("depths", unsigned(nd)); prm.set_len("centerline temperatures", unsigned(nt)); prm.set_len("gaussian sigmas", unsigned(ns));
  prm.set_positive("gaussian sigmas");          // the parser rejects non-positive sigmas (a value error, not a length error); lengths are the subject here
  bool threw = false; PM::Temperature::Gaussian *m = nullptr;
  try { m = new PM::Temperature::Gaussian(w); m->parse_entries(w->parameters); }
  catch (...) { threw = true; }
  consistent_or_throw(threw, nd == nt && nd == ns && nd >= 1, "gaussian: consistent list lengths are accepted", "gaussian: depths, centerline temperatures and sigmas of different lengths are rejected with an exception");
  if (!threw)
    {
      const Point<3> pos(0, 0, 0, cartesian); const Objects::NaturalCoordinate nc_(pos, *w->parameters.coordinate_system);
      try { (void) m->PM::Temperature::Gaussian::get_temperature(pos, nc_, sym_f64("depth"), sym_f64("gravity"), sym_f64("T0"), sym_f64("fmin"), sym_f64("fmax"), sym_f64("relative")); } catch (...) {}
      sym_reach("queried");
    }
  sym_reach("end");
}

// uniform raw velocity: the velocity vector must have three entries
extern "C" void h_c12_velocity(unsigned long n)
{
  World *w = make_world(0);
  prm.set_len("velocity", unsigned(n));
  std::vector<Point<2>> coords(3, Point<2>(0, 0, cartesian));
  bool threw = false;
  try { auto *m = new Features::ContinentalPlateModels::Velocity::UniformRaw(w); m->parse_entries(w->parameters, coords); }
  catch (...) { threw = true; }
  consistent_or_throw(threw, n == 3, "uniform raw velocity: a three-component vector is accepted", "uniform raw velocity: a vector that does not have three components is rejected with an exception");
  sym_reach("end");
}

// uniform composition: compositions / fractions
extern "C" void h_c12_composition(unsigned long nc, unsigned long nf)
{
  World *w = make_world(0);
  prm.set_len("compositions", unsigned(nc)); prm.set_len("fractions", unsigned(nf));
  std::vector<Point<2>> coords(3, Point<2>(0, 0, cartesian));
  bool threw = false; Features::ContinentalPlateModels::Composition::Uniform *m = nullptr;
  try { m = new Features::ContinentalPlateModels::Composition::Uniform(w); m->parse_entries(w->parameters, coords); }
  catch (...) { threw = true; }
  consistent_or_throw(threw, nc == nf, "uniform composition: consistent list lengths are accepted", "uniform composition: compositions and fractions of different lengths are rejected with an exception");
  if (!threw)
    {
      const Point<3> pos(0, 0, 0, cartesian); const Objects::NaturalCoordinate nc_(pos, *w->parameters.coordinate_system);
      try { (void) m->Features::ContinentalPlateModels::Composition::Uniform::get_composition(pos, nc_, sym_f64("depth"), sym_u32("number"), sym_f64("C0"), 0, 1); } catch (...) {}
      sym_reach("queried");
    }
  sym_reach("end");
}

// uniform grains: compositions / rotation matrices / grain sizes
template <class M> static void grains_lengths(unsigned long nc, unsigned long nr, unsigned long ns)
{
  World *w = make_world(0);
  prm.set_len("compositions", unsigned(nc)); prm.set_len("rotation matrices", unsigned(nr)); prm.set_len("Euler angles z-x-z", unsigned(nr)); prm.set_len("grain sizes", unsigned(ns));
  std::vector<Point<2>> coords(3, Point<2>(0, 0, cartesian));
  bool threw = false; M *m = nullptr;
  bool both_or_neither = false;
  try { m = new M(w); m->parse_entries(w->parameters, coords); }
  catch (...) { threw = true; }
  if (nc == nr && nc == ns) sym_reach("consistent"); else sym_assert(threw, "uniform grains: lists of different lengths are rejected with an exception");
  (void) both_or_neither;
  if (!threw)
    {
      const Point<3> pos(0, 0, 0, cartesian); const Objects::NaturalCoordinate nc_(pos, *w->parameters.coordinate_system);
      WorldBuilder::grains g; g.sizes.resize(1); g.rotation_matrices.resize(1);
      try { (void) m->M::get_grains(pos, nc_, sym_f64("depth"), sym_u32("number"), g, 0, 1); } catch (...) {}
      sym_reach("queried");
    }
  sym_reach("end");
}

extern "C" void h_c12_grains(unsigned long nc, unsigned long nr, unsigned long ns, unsigned long family)
{
  if (family == 0) grains_lengths<Features::ContinentalPlateModels::Grains::Uniform>(nc, nr, ns);
  else if (family == 1) grains_lengths<Features::OceanicPlateModels::Grains::Uniform>(nc, nr, ns);
  else grains_lengths<Features::MantleLayerModels::Grains::Uniform>(nc, nr, ns);
}

// oceanic half-space model: one spreading velocity, or one per ridge point
extern "C" void h_c12_ridge(unsigned long n_ridges, unsigned long n_points, unsigned long n_velocities)
{
  World *w = make_world(0);
  w->thermal_diffusivity = sym_f64("kappa");
  prm.set_len("ridge coordinates", unsigned(n_ridges)); prm.set_len("<inner>", unsigned(n_points)); prm.set_len("spreading velocity", unsigned(n_velocities));
  std::vector<Point<2>> coords(3, Point<2>(0, 0, cartesian));
  bool threw = false; Features::OceanicPlateModels::Temperature::HalfSpaceModel *m = nullptr;
  try { m = new Features::OceanicPlateModels::Temperature::HalfSpaceModel(w); m->parse_entries(w->parameters, coords); }
  catch (...) { threw = true; }
  const bool consistent = n_velocities == 1 || n_velocities == n_ridges * n_points;
  consistent_or_throw(threw, consistent && n_ridges >= 1 && n_points >= 2, "half-space model: one spreading velocity or one per ridge point is accepted", "half-space model: a spreading-velocity list that matches neither 1 nor the number of ridge points is rejected with an exception");
  if (!threw)
    {
      const Point<3> pos(sym_f64("x"), sym_f64("y"), sym_f64("z"), cartesian); const Objects::NaturalCoordinate nc_(pos, *w->parameters.coordinate_system);
      try { (void) m->Features::OceanicPlateModels::Temperature::HalfSpaceModel::get_temperature(pos, nc_, sym_f64("depth"), sym_f64("gravity"), sym_f64("T0"), 0, 1); } catch (...) {}
      sym_reach("queried");
    }
  sym_reach("end");
}

// spherical coordinate system: every accepted "depth method" leaves the depth method initialised; others are rejected
extern "C" void h_c12_depth_method(void)
{
  World *w = make_world(0);
  prm.set_options("depth method", "starting point", "begin segment", "begin at end segment", "continuous");
  auto *c = new CoordinateSystems::Spherical(w);
  sym_freeze();                                     // remember which cells are initialised now
  bool threw = false;
  try { c->parse_entries(w->parameters); } catch (...) { threw = true; }
  if (!threw)
    {
      const int dm = c->depth_method();
      sym_assert(dm == angle_at_starting_point_with_surface || dm == angle_at_begin_segment_with_surface || dm == angle_at_begin_segment_applied_to_end_segment_with_surface,
                 "an accepted depth method option leaves a defined, supported depth method");
    }
  sym_reach("end");
}

// string-valued options that the schema does not restrict to an enumeration: every value must either be rejected or leave a defined state
extern "C" void h_c12_string_option(unsigned long which)
{
  World *w = make_world(0);
  std::vector<Point<2>> coords(3, Point<2>(0, 0, cartesian));
  prm.set_len("<inner>", 2);
  bool threw = false; int value = -1;
  if (which == 0)
    {
      prm.set_options("lithology", "peridotite", "gabbro", "sediment", "basalt");       // the last one is not a supported lithology
      auto *m = new Features::OceanicPlateModels::Composition::TianWaterContent(w);
      try { m->parse_entries(w->parameters, coords); } catch (...) { threw = true; }
      if (!threw) value = m->lithology_type;
      if (!threw) sym_assert(value >= 0 && value <= 3, "an accepted lithology option leaves a defined, supported lithology");
    }
  else if (which == 1)
    {
      prm.set_options("lithology", "MORB", "gabbro", "sediment", "basalt");
      auto *m = new Features::SubductingPlateModels::Composition::TianWaterContent(w);
      try { m->parse_entries(w->parameters); } catch (...) { threw = true; }
      if (!threw) value = m->lithology_type;
      if (!threw) sym_assert(value >= 0 && value <= 3, "an accepted lithology option leaves a defined, supported lithology");
    }
  else
    {
      prm.set_options("reference model name", "half space model", "plate model", "cooling model");       // the last one is not a supported reference model
      auto *m = new Features::SubductingPlateModels::Temperature::MassConserving(w);
      try { m->parse_entries(w->parameters); } catch (...) { threw = true; }
      if (!threw) value = m->reference_model_name;
      if (!threw) sym_assert(value >= 0 && value <= 1, "an accepted reference model option leaves a defined, supported reference model");
    }
  sym_reach("end");
}
