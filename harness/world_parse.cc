// World::World + World::parse_entries against the Parameters stub (JSON layer outside):
//  C15.seed : the engine is seeded from the constructor argument and re-seeded from a non-negative 'random number seed' entry (+ rank 0)
//  C09.dir  : with a cross section the world is 2D and surface_coord_conversions is the unit vector from the first towards the second point
#include "common.h"
#include "prm_stub.h"
#include "world_builder/config.h"
#include <random>
using namespace H;
#define STR2(x) #x
#define STR(x) STR2(x)
namespace
{
  World *current_world = nullptr; bool spherical_world = false, has_cross_section = false; int file_seed = 0; unsigned n_cross = 2;
  double cross_in[3][2];
  alignas(World) unsigned char storage[sizeof(World)];
  bool cross_hook(const std::string &name, bool &r) { if (!(name == "cross section")) return false; r = has_cross_section = sym_bool("cross section present"); return true; }
}
extern "C" {
  // Parameters::Parameters(World&): the members the world uses; the JSON documents stay untouched
  void __wrap__ZN12WorldBuilder10ParametersC1ERNS_5WorldE(Parameters *self, World *w)
  {
    current_world = w;
    new (&self->coordinate_system) std::unique_ptr<CoordinateSystems::Interface>();
    new (&self->gravity_model) std::unique_ptr<GravityModel::Interface>();
    new (&self->features) std::vector<std::unique_ptr<Features::Interface>>();
  }
  void __wrap__ZN12WorldBuilder5World15declare_entriesERNS_10ParametersE(Parameters *) {}
  void __wrap__ZN12WorldBuilder10Parameters10initializeERNSt7__cxx1112basic_stringIcSt11char_traitsIcESaIcEEEbRKS6_(Parameters *, std::string *, bool, const std::string *) {}
  int __wrap__ZN12WorldBuilder10Parameters3getIiEET_RKNSt7__cxx1112basic_stringIcSt11char_traitsIcESaIcEEE(Parameters *, const std::string *name)
  { const int v = static_cast<int>(sym_u32(name->c_str())); if (*name == "random number seed") file_seed = v; return v; }
  bool __wrap__ZN12WorldBuilder10Parameters19get_unique_pointersINS_8Features9InterfaceEEEbRKNSt7__cxx1112basic_stringIcSt11char_traitsIcESaIcEEERSt6vectorISt10unique_ptrIT_St14default_deleteISE_EESaISH_EE(Parameters *, const std::string *, void *) { return false; }
}
extern "C" std::unique_ptr<CoordinateSystems::Interface> __wrap__ZN12WorldBuilder10Parameters18get_unique_pointerINS_17CoordinateSystems9InterfaceEEESt10unique_ptrIT_St14default_deleteIS5_EERKNSt7__cxx1112basic_stringIcSt11char_traitsIcESaIcEEE(Parameters *, const std::string *)
{
  if (spherical_world) return std::unique_ptr<CoordinateSystems::Interface>(new CoordinateSystems::Spherical(current_world));
  return std::unique_ptr<CoordinateSystems::Interface>(new CoordinateSystems::Cartesian(current_world));
}
extern "C" std::unique_ptr<GravityModel::Interface> __wrap__ZN12WorldBuilder10Parameters18get_unique_pointerINS_12GravityModel9InterfaceEEESt10unique_ptrIT_St14default_deleteIS5_EERKNSt7__cxx1112basic_stringIcSt11char_traitsIcESaIcEEE(Parameters *, const std::string *)
{ return std::unique_ptr<GravityModel::Interface>(new GravityModel::Uniform(current_world)); }
extern "C" std::vector<Point<2>> __wrap__ZN12WorldBuilder10Parameters10get_vectorINS_5PointILj2EEEEESt6vectorIT_SaIS5_EERKNSt7__cxx1112basic_stringIcSt11char_traitsIcESaIcEEE(Parameters *, const std::string *)
{
  std::vector<Point<2>> v;
  for (unsigned i = 0; i < n_cross; ++i) { cross_in[i][0] = sym_f64("cross section x"); cross_in[i][1] = sym_f64("cross section y"); v.emplace_back(cross_in[i][0], cross_in[i][1], spherical_world ? spherical : cartesian); }
  return v;
}

extern "C" void h_world_parse(unsigned long spherical_cs, unsigned long ncross)
{
  // namespace-scope std::string constants Version::MAJOR/MINOR have one copy per translation unit (the executor does not run global constructors)
  sym_run_ctors("world.cc");
  static const std::string version = STR(WORLD_BUILDER_VERSION_MAJOR) "." STR(WORLD_BUILDER_VERSION_MINOR);
  spherical_world = spherical_cs != 0; n_cross = unsigned(ncross);
  prm.set_options("version", version.c_str());
  prm.set_options("depth method", "starting point", "begin segment", "begin at end segment");
  prm.check_hook = cross_hook;
  const unsigned long constructor_seed = sym_u64("constructor seed");
  World *w = nullptr; bool threw = false;
  try { w = new (storage) World("world file", false, "", constructor_seed, true); } catch (...) { threw = true; }
  if (threw)
    {
      sym_assert(has_cross_section && ncross != 2, "a world is rejected only for a cross section that does not have two points");
      sym_reach("end-rejected"); return;
    }
  sym_assert(!(has_cross_section && ncross != 2), "a cross section that does not have two points is rejected with an exception");
  // C15.seed: the engine state after construction
  const unsigned long effective_seed = sym_decide(file_seed >= 0) ? static_cast<unsigned long>(static_cast<unsigned int>(file_seed)) : constructor_seed;
  sym_assert(w->random_number_engine._M_x[0] == (effective_seed & 0xffffffffUL), "the first state word is the seed itself: different seeds give different engines");
  std::mt19937 reference(effective_seed);
  bool same = w->random_number_engine._M_p == reference._M_p;
  for (unsigned i = 0; i < 624; ++i) same &= (w->random_number_engine._M_x[i] == reference._M_x[i]);
  sym_assert(same, "the engine is mt19937 seeded with the file's non-negative 'random number seed' (rank 0), else with the constructor seed");
  // C09.dir
  sym_assert((w->dim == 2) == has_cross_section && (w->dim == 2 || w->dim == 3), "the world is 2D exactly when a cross section is declared");
  if (has_cross_section)
    {
      const double scale = spherical_world ? Consts::PI / 180.0 : 1.0;
      const double ax = cross_in[0][0] * scale, ay = cross_in[0][1] * scale, bx = cross_in[1][0] * scale, by = cross_in[1][1] * scale;
      sym_assert(w->cross_section.size() == 2 && sym_eq(w->cross_section[0][0], ax) && sym_eq(w->cross_section[0][1], ay) && sym_eq(w->cross_section[1][0], bx) && sym_eq(w->cross_section[1][1], by),
                 "the stored cross section is the declared one (degrees converted to radians in spherical worlds)");
      const double dx = w->surface_coord_conversions[0], dy = w->surface_coord_conversions[1];
      if (!(ax == bx && ay == by))
        {
          sym_assert(sym_eq(dx * dx + dy * dy, 1.0), "the section direction is a unit vector");
          sym_assert(sym_eq(dx * (by - ay) - dy * (bx - ax), 0.0) && dx * (bx - ax) + dy * (by - ay) > 0, "the section direction points from the first cross-section point towards the second");
          sym_reach("direction");
        }
    }
  sym_reach("end");
}
