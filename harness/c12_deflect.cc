// C12.range.deflection: the 'deflections' of the six "random uniform distribution deflected" grains models are documented as lying between 0 and 1;
// values outside make the model take square roots of negative numbers (NaN orientations, reproduced through gwb-dat).  The real parse_entries()
// of every family runs against the Parameters stub with arbitrary list values: it must either throw or leave only deflections within [0,1].
#include "common.h"
#include "prm_stub.h"
#include "world_builder/features/continental_plate_models/grains/random_uniform_distribution_deflected.h"
#include "world_builder/features/oceanic_plate_models/grains/random_uniform_distribution_deflected.h"
#include "world_builder/features/mantle_layer_models/grains/random_uniform_distribution_deflected.h"
#include "world_builder/features/fault_models/grains/random_uniform_distribution_deflected.h"
#include "world_builder/features/subducting_plate_models/grains/random_uniform_distribution_deflected.h"
#include "world_builder/features/plume_models/grains/random_uniform_distribution_deflected.h"
using namespace H;
template <class M> static void parse(M *m, World *w, void (M::*)(Parameters &, const std::vector<Point<2>> &)) { const std::vector<Point<2>> coords(3, Point<2>(0, 0, cartesian)); m->parse_entries(w->parameters, coords); }
template <class M> static void parse(M *m, World *w, void (M::*)(Parameters &)) { m->parse_entries(w->parameters); }
template <class M> static void deflection_range(const unsigned n, const bool euler)
{
  World *w = make_world(0);
  prm.set_len("compositions", n); prm.set_len("grain sizes", n); prm.set_len("normalize grain sizes", n); prm.set_len("deflections", n);
  prm.set_len("basis rotation matrices", n); prm.set_len("basis Euler angles z-x-z", n);
  prm.set_options("orientation operation", "replace", "multiply");
  bool threw = false; M *m = nullptr;
  try { m = new M(w); parse(m, w, &M::parse_entries); }
  catch (...) { threw = true; }
  if (!threw)
    {
      sym_assert(m->deflections.size() == n, "one deflection per composition");
      bool in_range = true; for (unsigned i = 0; i < m->deflections.size(); ++i) in_range &= (m->deflections[i] >= 0. && m->deflections[i] <= 1.);
      sym_assert(in_range, "an accepted deflection lies within its documented range [0,1]");
      sym_reach("accepted");
    }
  else sym_reach("rejected");
  sym_reach("end");
}
extern "C" void h_c12_deflection(unsigned long family, unsigned long n)
{
  switch (family)
    {
      case 0: deflection_range<Features::ContinentalPlateModels::Grains::RandomUniformDistributionDeflected>(unsigned(n), true); break;
      case 1: deflection_range<Features::OceanicPlateModels::Grains::RandomUniformDistributionDeflected>(unsigned(n), true); break;
      case 2: deflection_range<Features::MantleLayerModels::Grains::RandomUniformDistributionDeflected>(unsigned(n), true); break;
      case 3: deflection_range<Features::FaultModels::Grains::RandomUniformDistributionDeflected>(unsigned(n), true); break;
      case 4: deflection_range<Features::SubductingPlateModels::Grains::RandomUniformDistributionDeflected>(unsigned(n), true); break;
      default: deflection_range<Features::PlumeModels::Grains::RandomUniformDistributionDeflected>(unsigned(n), true); break;
    }
}
