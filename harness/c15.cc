// C15: random grain orientations are proper rotations, normalised sizes sum to one, fixed sizes are returned as given,
// random compositions lie within their bounds; the number of draws depends only on model state and request.
// Randomness = arbitrary value of its contract: uniform_real_distribution<double>::operator() is specialised (before the
// model sources are compiled into this unit) to return a fresh value u in [0,1) scaled to [a,b); the Mersenne Twister is outside.
#include <random>
#include "sym.h"
namespace verif15 { static unsigned draws = 0; static double value[16]; }
namespace std
{
  template <> template <>
  double uniform_real_distribution<double>::operator()(mt19937 &, const param_type &p)
  {
    const double u = sym_f64("uniform draw"); sym_assume(u >= 0 && u < 1);
    if (verif15::draws < 16) verif15::value[verif15::draws] = u;
    ++verif15::draws;
    return u * (p.b() - p.a()) + p.a();
  }
}
#include "frame_area.h"
#include "prm_stub.h"
#include "world_builder/features/continental_plate_models/grains/random_uniform_distribution.cc"
#include "world_builder/features/oceanic_plate_models/grains/random_uniform_distribution.cc"
#include "world_builder/features/mantle_layer_models/grains/random_uniform_distribution.cc"
#include "world_builder/features/continental_plate_models/composition/random.cc"
#include "world_builder/features/continental_plate_models/grains/random_uniform_distribution_deflected.cc"
#include "world_builder/features/oceanic_plate_models/grains/random_uniform_distribution_deflected.cc"
#include "world_builder/features/mantle_layer_models/grains/random_uniform_distribution_deflected.cc"
#include "world_builder/features/plume_models/grains/random_uniform_distribution_deflected.cc"
#include "world_builder/features/fault_models/grains/random_uniform_distribution.cc"
#include "world_builder/features/fault_models/grains/random_uniform_distribution_deflected.cc"
#include "world_builder/features/subducting_plate_models/grains/random_uniform_distribution.cc"
#include "world_builder/features/subducting_plate_models/grains/random_uniform_distribution_deflected.cc"
#include <cmath>
using namespace H;
namespace G = WorldBuilder::Features::ContinentalPlateModels::Grains;
namespace Co = WorldBuilder::Features::ContinentalPlateModels::Composition;

// k grains; sizes_random: grain size entry negative (=> random sizes); normalize flag symbolic
template <class M> static void grains_case(unsigned long k, unsigned long check, unsigned long ncomp)
{
  World *w = make_world(0);
  std::vector<Point<2>> coords(3, Point<2>(0, 0, cartesian));
  prm.set_len("compositions", unsigned(ncomp)); prm.set_len("grain sizes", unsigned(ncomp)); prm.set_len("normalize grain sizes", unsigned(ncomp));
  M *m = new M(w);
  m->parse_entries(w->parameters, coords);
  m->min_depth_surface.constant_value = true; m->max_depth_surface.constant_value = true;
  const Point<3> pos(0, 0, 0, cartesian); const Objects::NaturalCoordinate nc(pos, *w->parameters.coordinate_system);
  const double depth = sym_f64("depth"); const unsigned number = sym_u32("number");
  for (unsigned i = 0; i < ncomp; ++i) for (unsigned j = 0; j < i; ++j) sym_assume(m->compositions[i] != m->compositions[j]);      // a composition is listed once
  const unsigned pos_ = sym_u32("position"); sym_assume(pos_ < ncomp);
  unsigned P = 0; for (unsigned i = 0; i < ncomp; ++i) if (pos_ == i) P = i;
  sym_assume(depth >= m->min_depth && depth <= m->max_depth && number == m->compositions[P]);      // the model applies through its P-th entry
  WorldBuilder::grains old; old.sizes.resize(k); old.rotation_matrices.resize(k);
  for (unsigned i = 0; i < k; ++i) { old.sizes[i] = sym_f64("gs"); for (unsigned r = 0; r < 9; ++r) old.rotation_matrices[i][r/3][r%3] = sym_f64("gr"); }
  verif15::draws = 0;
  sym_freeze(); sym_allow(&verif15::draws); sym_allow(&verif15::value); sym_allow(&env);
  const WorldBuilder::grains g = m->M::get_grains(pos, nc, depth, number, old, 0, 1);
  sym_assert(sym_writes() == 0, "the only pre-existing state a random model may touch is the world's engine");
  const bool random_sizes = m->grain_sizes[P] < 0;
  sym_assert(verif15::draws == 3 * k + (random_sizes ? k : 0), "the number of draws depends only on the model state, the composition number and the grain count");
  sym_assert(g.sizes.size() == k && g.rotation_matrices.size() == k, "grain count is preserved");
  if (check == 0)
    for (unsigned i = 0; i < k && i < g.rotation_matrices.size(); ++i)
      {
        const auto &R = g.rotation_matrices[i];
        for (unsigned a = 0; a < 3; ++a) for (unsigned b = a; b < 3; ++b)
          sym_assert(sym_eq(R[a][0]*R[b][0] + R[a][1]*R[b][1] + R[a][2]*R[b][2], a == b ? 1.0 : 0.0), "random grain orientation is orthonormal (R R^T = I)");
        const double det = R[0][0]*(R[1][1]*R[2][2] - R[1][2]*R[2][1]) - R[0][1]*(R[1][0]*R[2][2] - R[1][2]*R[2][0]) + R[0][2]*(R[1][0]*R[2][1] - R[1][1]*R[2][0]);
        sym_assert(sym_eq(det, 1.0), "random grain orientation has determinant +1");
      }
  else
    {
      double total = 0; for (unsigned i = 0; i < k && i < g.sizes.size(); ++i) total += g.sizes[i];
      if (m->normalize_grain_sizes[P])
        {
          double raw = 0; if (!random_sizes) raw = double(k) * m->grain_sizes[P];
          if (random_sizes) { raw = 0; for (unsigned i = 0; i < k; ++i) raw += verif15::value[3*k + i]; }      // the drawn sizes (not all exactly zero: probability-zero event, outside the claim)
          if (raw > 0) sym_assert(sym_eq(total, 1.0), "normalised grain sizes sum to one");
        }
      else if (!random_sizes)
        for (unsigned i = 0; i < k && i < g.sizes.size(); ++i) sym_assert(sym_eq(g.sizes[i], m->grain_sizes[P]), "fixed grain sizes are returned as given");
      else
        for (unsigned i = 0; i < k && i < g.sizes.size(); ++i) sym_assert(g.sizes[i] >= 0 && g.sizes[i] < 1, "random grain sizes lie in [0,1)");
    }
  sym_reach("end");
}

extern "C" void h_c15_grains(unsigned long k, unsigned long check, unsigned long family, unsigned long ncomp)
{
  if (family == 0) grains_case<WorldBuilder::Features::ContinentalPlateModels::Grains::RandomUniformDistribution>(k, check, ncomp);
  else if (family == 1) grains_case<WorldBuilder::Features::OceanicPlateModels::Grains::RandomUniformDistribution>(k, check, ncomp);
  else grains_case<WorldBuilder::Features::MantleLayerModels::Grains::RandomUniformDistribution>(k, check, ncomp);
}

// The "deflected" variant (area families and the plume): same size contract, orientation = random rotation restricted by the
// deflection times the basis matrix.  Only the sizes and the draw count are asserted here.
template <class M> static void dparse(M *m, World *w, void (M::*)(Parameters &, const std::vector<Point<2>> &)) { const std::vector<Point<2>> coords(3, Point<2>(0, 0, cartesian)); m->parse_entries(w->parameters, coords); m->min_depth_surface.constant_value = true; m->max_depth_surface.constant_value = true; }
template <class M> static void dparse(M *m, World *w, void (M::*)(Parameters &)) { m->parse_entries(w->parameters); }
template <class M> static void deflected_case(unsigned long k, unsigned long ncomp)
{
  World *w = make_world(0);
  const unsigned n = unsigned(ncomp);
  prm.set_len("compositions", n); prm.set_len("grain sizes", n); prm.set_len("normalize grain sizes", n); prm.set_len("deflections", n);
  prm.set_len("basis rotation matrices", n); prm.set_len("basis Euler angles z-x-z", n);
  prm.set_options("orientation operation", "replace", "multiply");
  M *m = new M(w);
  dparse(m, w, &M::parse_entries);
  const Point<3> pos(0, 0, 0, cartesian); const Objects::NaturalCoordinate nc(pos, *w->parameters.coordinate_system);
  const double depth = sym_f64("depth"); const unsigned number = sym_u32("number");
  for (unsigned i = 0; i < ncomp; ++i) for (unsigned j = 0; j < i; ++j) sym_assume(m->compositions[i] != m->compositions[j]);
  const unsigned pos_ = sym_u32("position"); sym_assume(pos_ < ncomp);
  unsigned P = 0; for (unsigned i = 0; i < ncomp; ++i) if (pos_ == i) P = i;
  sym_assume(depth >= m->min_depth && depth <= m->max_depth && number == m->compositions[P]);
  WorldBuilder::grains old; old.sizes.resize(k); old.rotation_matrices.resize(k);
  for (unsigned i = 0; i < k; ++i) { old.sizes[i] = sym_f64("gs"); for (unsigned r = 0; r < 9; ++r) old.rotation_matrices[i][r/3][r%3] = sym_f64("gr"); }
  verif15::draws = 0;
  sym_freeze(); sym_allow(&verif15::draws); sym_allow(&verif15::value); sym_allow(&env);
  const WorldBuilder::grains g = m->M::get_grains(pos, nc, depth, number, old, 0, 1);
  sym_assert(sym_writes() == 0, "the only pre-existing state a random model may touch is the world's engine");
  const bool random_sizes = m->grain_sizes[P] < 0;
  sym_assert(verif15::draws == 3 * k + (random_sizes ? k : 0), "the number of draws depends only on the model state, the composition number and the grain count");
  sym_assert(g.sizes.size() == k && g.rotation_matrices.size() == k, "grain count is preserved");
  double total = 0; for (unsigned i = 0; i < k && i < g.sizes.size(); ++i) total += g.sizes[i];
  if (m->normalize_grain_sizes[P])
    {
      double raw = 0; if (!random_sizes) raw = double(k) * m->grain_sizes[P];
      if (random_sizes) { raw = 0; for (unsigned i = 0; i < k; ++i) raw += verif15::value[3*k + i]; }
      if (raw > 0) sym_assert(sym_eq(total, 1.0), "normalised grain sizes sum to one");
    }
  else if (!random_sizes)
    for (unsigned i = 0; i < k && i < g.sizes.size(); ++i) sym_assert(sym_eq(g.sizes[i], m->grain_sizes[P]), "fixed grain sizes are returned as given");
  else
    for (unsigned i = 0; i < k && i < g.sizes.size(); ++i) sym_assert(g.sizes[i] >= 0 && g.sizes[i] < 1, "random grain sizes lie in [0,1)");
  sym_reach("end");
}

extern "C" void h_c15_deflected(unsigned long k, unsigned long family, unsigned long ncomp)
{
  if (family == 0) deflected_case<WorldBuilder::Features::ContinentalPlateModels::Grains::RandomUniformDistributionDeflected>(k, ncomp);
  else if (family == 1) deflected_case<WorldBuilder::Features::OceanicPlateModels::Grains::RandomUniformDistributionDeflected>(k, ncomp);
  else if (family == 2) deflected_case<WorldBuilder::Features::MantleLayerModels::Grains::RandomUniformDistributionDeflected>(k, ncomp);
  else deflected_case<WorldBuilder::Features::PlumeModels::Grains::RandomUniformDistributionDeflected>(k, ncomp);
}

// The line families (fault: |distance from the centre| within [min,max]; slab: signed distance below the slab top), both variants.
template <class M> static void line_case(unsigned long k, unsigned long ncomp, const bool fault)
{
  World *w = make_world(0);
  const unsigned n = unsigned(ncomp);
  prm.set_len("compositions", n); prm.set_len("grain sizes", n); prm.set_len("normalize grain sizes", n); prm.set_len("deflections", n);
  prm.set_len("basis rotation matrices", n); prm.set_len("basis Euler angles z-x-z", n);
  prm.set_options("orientation operation", "replace", "multiply");
  M *m = new M(w);
  m->parse_entries(w->parameters);
  const Point<3> pos(0, 0, 0, cartesian);
  WorldBuilder::Utilities::PointDistanceFromCurvedPlanes pd(cartesian);
  pd.distance_from_plane = sym_f64("distance from plane"); pd.distance_along_plane = sym_f64("distance along plane");
  pd.fraction_of_section = 0.5; pd.fraction_of_segment = 0.5; pd.section = 0; pd.segment = 0; pd.average_angle = 0.1; pd.depth_reference_surface = 0;
  const Features::AdditionalParameters ap = {sym_f64("local length"), sym_f64("local thickness")};
  const double depth = sym_f64("depth"); const unsigned number = sym_u32("number");
  for (unsigned i = 0; i < ncomp; ++i) for (unsigned j = 0; j < i; ++j) sym_assume(m->compositions[i] != m->compositions[j]);
  const unsigned pos_ = sym_u32("position"); sym_assume(pos_ < ncomp);
  unsigned P = 0; for (unsigned i = 0; i < ncomp; ++i) if (pos_ == i) P = i;
  const double d = fault ? std::fabs(pd.distance_from_plane) : pd.distance_from_plane;
  sym_assume(d >= m->min_depth && d <= m->max_depth && number == m->compositions[P]);
  WorldBuilder::grains old; old.sizes.resize(k); old.rotation_matrices.resize(k);
  for (unsigned i = 0; i < k; ++i) { old.sizes[i] = sym_f64("gs"); for (unsigned r = 0; r < 9; ++r) old.rotation_matrices[i][r/3][r%3] = sym_f64("gr"); }
  verif15::draws = 0;
  sym_freeze(); sym_allow(&verif15::draws); sym_allow(&verif15::value); sym_allow(&env);
  const WorldBuilder::grains g = m->M::get_grains(pos, depth, number, old, 0, 1, pd, ap);
  sym_assert(sym_writes() == 0, "the only pre-existing state a random model may touch is the world's engine");
  const bool random_sizes = m->grain_sizes[P] < 0;
  sym_assert(verif15::draws == 3 * k + (random_sizes ? k : 0), "the number of draws depends only on the model state, the composition number and the grain count");
  sym_assert(g.sizes.size() == k && g.rotation_matrices.size() == k, "grain count is preserved");
  double total = 0; for (unsigned i = 0; i < k && i < g.sizes.size(); ++i) total += g.sizes[i];
  if (m->normalize_grain_sizes[P])
    {
      double raw = 0; if (!random_sizes) raw = double(k) * m->grain_sizes[P];
      if (random_sizes) { raw = 0; for (unsigned i = 0; i < k; ++i) raw += verif15::value[3*k + i]; }
      if (raw > 0) sym_assert(sym_eq(total, 1.0), "normalised grain sizes sum to one");
    }
  else if (!random_sizes)
    for (unsigned i = 0; i < k && i < g.sizes.size(); ++i) sym_assert(sym_eq(g.sizes[i], m->grain_sizes[P]), "fixed grain sizes are returned as given");
  else
    for (unsigned i = 0; i < k && i < g.sizes.size(); ++i) sym_assert(g.sizes[i] >= 0 && g.sizes[i] < 1, "random grain sizes lie in [0,1)");
  sym_reach("end");
}

extern "C" void h_c15_line(unsigned long k, unsigned long family, unsigned long ncomp)
{
  if (family == 0) line_case<WorldBuilder::Features::FaultModels::Grains::RandomUniformDistribution>(k, ncomp, true);
  else if (family == 1) line_case<WorldBuilder::Features::FaultModels::Grains::RandomUniformDistributionDeflected>(k, ncomp, true);
  else if (family == 2) line_case<WorldBuilder::Features::SubductingPlateModels::Grains::RandomUniformDistribution>(k, ncomp, false);
  else line_case<WorldBuilder::Features::SubductingPlateModels::Grains::RandomUniformDistributionDeflected>(k, ncomp, false);
}

extern "C" void h_c15_composition(void)
{
  World *w = make_world(0);
  std::vector<Point<2>> coords(3, Point<2>(0, 0, cartesian));
  prm.set_len("compositions", 1); prm.set_len("min value", 1); prm.set_len("max value", 1);
  auto *m = new Co::Random(w);
  m->parse_entries(w->parameters, coords);
  m->min_depth_surface.constant_value = true; m->max_depth_surface.constant_value = true;
  const Point<3> pos(0, 0, 0, cartesian); const Objects::NaturalCoordinate nc(pos, *w->parameters.coordinate_system);
  const double depth = sym_f64("depth"), oldc = sym_f64("Cold"); const unsigned number = sym_u32("number");
  sym_assume(depth >= m->min_depth && depth <= m->max_depth && number == m->compositions[0] && m->max_value[0] > m->min_value[0]);
  sym_assume(m->operation == Features::FeatureUtilities::Operations::REPLACE);
  verif15::draws = 0;
  const double c = m->Co::Random::get_composition(pos, nc, depth, number, oldc, 0, 1);
  sym_assert(verif15::draws == 1, "one draw per random composition");
  sym_assert(c >= m->min_value[0] && c < m->max_value[0], "random composition lies within its configured bounds");
  sym_reach("end");
}
