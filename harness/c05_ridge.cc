// C05.ridge: calculate_ridge_distance_and_spreading - nearest point on the ridge polyline, spreading velocity linearly
// interpolated at THAT point.  Cartesian: real distance function (sqrt uninterpreted with r>=0, r^2=x).
// Spherical: distance_between_points_at_same_depth replaced by an uninterpreted function of the compared point,
// so only the choice logic (two longitude aliases, velocity taken from the chosen foot) is decided.
#include "common.h"
#include "world_builder/utilities.h"
#include <cmath>
using namespace H;
extern "C" double __wrap__ZNK12WorldBuilder17CoordinateSystems9Spherical37distance_between_points_at_same_depthERKNS_5PointILj3EEES5_
(const CoordinateSystems::Spherical *, const Point<3> *, const Point<3> *p2)
{
  const double d = sym_uf3(900, (*p2)[0], (*p2)[1], (*p2)[2]);
  return d;
}
namespace
{
  struct Foot { double x, y, t; };
  Foot foot_on_segment(const double ax, const double ay, const double bx, const double by, const double px, const double py)
  {
    const double vx = bx - ax, vy = by - ay, c1 = (px - ax) * vx + (py - ay) * vy, c = vx * vx + vy * vy;
    if (c1 <= 0) return {ax, ay, 0.};
    if (c <= c1) return {bx, by, 1.};
    const double t = c1 / c; return {ax + t * vx, ay + t * vy, t};
  }
}
// nseg = number of segments of the single ridge (1 or 2)
extern "C" void h_c05_ridge(unsigned long spherical_cs, unsigned long nseg)
{
  World *w = make_world(0, spherical_cs != 0);
  std::vector<std::vector<Point<2>>> ridges(1); std::vector<std::vector<double>> vel(1);
  for (unsigned i = 0; i <= nseg; ++i)
    {
      ridges[0].emplace_back(sym_f64("rx"), sym_f64("ry"), spherical_cs ? spherical : cartesian); vel[0].push_back(sym_f64("v"));
      if (i) sym_assume(!(ridges[0][i][0] == ridges[0][i-1][0] && ridges[0][i][1] == ridges[0][i-1][1]));     // no zero-length segment
    }
  // the query position, given directly in natural coordinates
  alignas(Objects::NaturalCoordinate) static unsigned char ncbuf[sizeof(Objects::NaturalCoordinate)];
  auto *nc = reinterpret_cast<Objects::NaturalCoordinate *>(ncbuf);
  nc->coordinate_system = spherical_cs ? spherical : cartesian;
  const double px = sym_f64("px"), py = sym_f64("py"), pz = sym_f64("pdepth");
  if (spherical_cs) nc->coordinates = {{pz, px, py}}; else nc->coordinates = {{px, py, pz}};
  const std::vector<std::vector<double>> subducting = {{0}}; const std::vector<double> times = {0.0};
  const std::vector<double> r = Utilities::calculate_ridge_distance_and_spreading(ridges, vel, w->parameters.coordinate_system, *nc, subducting, times);
  sym_assert(r.size() == 4, "four results");
  const double year = 60.0 * 60.0 * 24.0 * 365.25;
  // ---- oracle: nearest foot over all segments (first minimum wins), both longitude aliases in spherical
  const double px2 = px < 0 ? px + 2.0 * Consts::PI : px - 2.0 * Consts::PI;
  double best_d = 0, best_v = 0; bool have = false; double best_d2 = 0;
  for (unsigned s = 0; s < nseg; ++s)
    {
      const double ax = ridges[0][s][0], ay = ridges[0][s][1], bx = ridges[0][s+1][0], by = ridges[0][s+1][1];
      const Foot f1 = foot_on_segment(ax, ay, bx, by, px, py);
      double d, v, d2 = 0;
      if (!spherical_cs)
        {
          d2 = (px - f1.x) * (px - f1.x) + (py - f1.y) * (py - f1.y);       // squared Euclidean distance to the foot
          d = std::sqrt(d2); v = vel[0][s] + (vel[0][s+1] - vel[0][s]) * f1.t;
        }
      else
        {
          const Foot f2 = foot_on_segment(ax, ay, bx, by, px2, py);
          const double d1 = sym_uf3(900, pz, f1.x, f1.y), dd2 = sym_uf3(900, pz, f2.x, f2.y);
          if (dd2 < d1) { d = dd2; v = vel[0][s] + (vel[0][s+1] - vel[0][s]) * f2.t; }
          else          { d = d1;  v = vel[0][s] + (vel[0][s+1] - vel[0][s]) * f1.t; }
        }
      if (!have || d < best_d) { best_d = d; best_v = v; best_d2 = d2; have = true; }
    }
  if (!spherical_cs) sym_assert(r[1] >= 0 && sym_eq(r[1] * r[1], best_d2), "distance is the Euclidean distance to the nearest point of the ridge polyline");
  else sym_assert(sym_eq(r[1], best_d), "distance is the smaller of the distances of the two longitude aliases' nearest ridge points");
  sym_assert(sym_eq(r[0] * year, best_v), "spreading velocity is interpolated at the chosen nearest ridge point (m/yr -> m/s)");
  sym_reach("end");
}
