// Environment stub for the JSON layer: the Parameters API that parse_entries() functions call delivers arbitrary
// schema-typed values (fresh symbolic values named after the key).  List lengths and string options are set by
// the harness through H::prm.  The Parameters object itself is never touched.
#ifndef WB_VERIF_PRM_STUB_H
#define WB_VERIF_PRM_STUB_H
#include "sym.h"
#include "world_builder/parameters.h"
#include "world_builder/point.h"
#include <string>
#include <vector>
#include <cstring>
namespace H
{
  struct PrmCfg
  {
    // (zero-initialised: the executor does not run global constructors, so no member may rely on a default member initialiser)
    struct { const char *key; unsigned len; } lens[12]; unsigned n_lens;
    struct { const char *key; const char *opt[6]; unsigned n; } strs[6]; unsigned n_strs;
    struct { const char *key; double value; } fixed[8]; unsigned n_fixed;      // keys answered with a concrete value
    const char *positive[4]; unsigned n_positive;                              // double lists whose entries the parser requires to be > 0 (delivered under that assumption)
    bool (*u32_hook)(const std::string &, unsigned &);                          // optional: harness-defined answer for an unsigned entry (returns true when it answers)
    bool (*check_hook)(const std::string &, bool &);                            // optional: harness-defined answer of check_entry
    double last_table[2];                                                      // last values delivered for the "min depth" [0] / "max depth" [1] tables of get(name, points)
    unsigned surface_points;        // get(name, coordinates): number of additional points (0 => constant surface)
    void set_len(const char *k, unsigned n) { lens[n_lens].key = k; lens[n_lens].len = n; ++n_lens; }
    void set_fixed(const char *k, double v) { fixed[n_fixed].key = k; fixed[n_fixed].value = v; ++n_fixed; }
    void set_positive(const char *k) { positive[n_positive++] = k; }
    bool is_positive(const std::string &k) const { for (unsigned i = 0; i < n_positive; ++i) if (k == positive[i]) return true; return false; }
    void set_options(const char *k, const char *a, const char *b = nullptr, const char *c = nullptr, const char *d = nullptr)
    { auto &s = strs[n_strs++]; s.key = k; s.n = 0; s.opt[s.n++] = a; if (b) s.opt[s.n++] = b; if (c) s.opt[s.n++] = c; if (d) s.opt[s.n++] = d; }
    unsigned len_of(const std::string &k) const
    { for (unsigned i = 0; i < n_lens; ++i) if (k == lens[i].key) return lens[i].len; return 1; }       // lists have one entry unless the harness says otherwise
  };
  static PrmCfg prm;
}
using WorldBuilder::Parameters;
extern "C" {
  double __wrap__ZN12WorldBuilder10Parameters3getIdEET_RKNSt7__cxx1112basic_stringIcSt11char_traitsIcESaIcEEE(Parameters *, const std::string *name)
  {
    for (unsigned i = 0; i < H::prm.n_fixed; ++i) if (*name == H::prm.fixed[i].key) return H::prm.fixed[i].value;
    return sym_f64(name->c_str());
  }
  unsigned __wrap__ZN12WorldBuilder10Parameters3getIjEET_RKNSt7__cxx1112basic_stringIcSt11char_traitsIcESaIcEEE(Parameters *, const std::string *name)
  {
    for (unsigned i = 0; i < H::prm.n_fixed; ++i) if (*name == H::prm.fixed[i].key) return static_cast<unsigned>(H::prm.fixed[i].value);
    if (H::prm.u32_hook) { unsigned r = 0; if (H::prm.u32_hook(*name, r)) return r; }
    return sym_u32(name->c_str());
  }
  bool __wrap__ZN12WorldBuilder10Parameters3getIbEET_RKNSt7__cxx1112basic_stringIcSt11char_traitsIcESaIcEEE(Parameters *, const std::string *name)
  {
    for (unsigned i = 0; i < H::prm.n_fixed; ++i) if (*name == H::prm.fixed[i].key) return H::prm.fixed[i].value != 0;
    return sym_bool(name->c_str());
  }
  void __wrap__ZN12WorldBuilder10Parameters16enter_subsectionERKNSt7__cxx1112basic_stringIcSt11char_traitsIcESaIcEEE(Parameters *, const std::string *) {}
  void __wrap__ZN12WorldBuilder10Parameters16leave_subsectionEv(Parameters *) {}
  bool __wrap__ZNK12WorldBuilder10Parameters11check_entryERKNSt7__cxx1112basic_stringIcSt11char_traitsIcESaIcEEE(const Parameters *, const std::string *name)
  { if (H::prm.check_hook) { bool r = false; if (H::prm.check_hook(*name, r)) return r; } return sym_bool(name->c_str()); }
}
extern "C" std::string __wrap__ZN12WorldBuilder10Parameters3getINSt7__cxx1112basic_stringIcSt11char_traitsIcESaIcEEEEET_RKS7_(Parameters *, const std::string *name)
{
  if (*name == "operation")
    {
      const unsigned op = sym_u32("operation"); sym_assume(op < 4);
      switch (op) { case 0: return "replace"; case 1: return "add"; case 2: return "subtract"; default: return "replace defined only"; }
    }
  for (unsigned i = 0; i < H::prm.n_strs; ++i)
    if (*name == H::prm.strs[i].key)
      {
        const unsigned k = sym_u32(H::prm.strs[i].key); sym_assume(k < H::prm.strs[i].n);
        for (unsigned j = 0; j + 1 < H::prm.strs[i].n; ++j) if (k == j) return H::prm.strs[i].opt[j];
        return H::prm.strs[i].opt[H::prm.strs[i].n - 1];
      }
  return "";
}
extern "C" std::string __wrap__ZNK12WorldBuilder10Parameters18get_full_json_pathB5cxx11Em(const Parameters *, unsigned long) { return "/p"; }
extern "C" std::vector<double> __wrap__ZN12WorldBuilder10Parameters10get_vectorIdEESt6vectorIT_SaIS3_EERKNSt7__cxx1112basic_stringIcSt11char_traitsIcESaIcEEE(Parameters *, const std::string *name)
{
  const unsigned n = H::prm.len_of(*name); std::vector<double> v(n);
  const bool pos = H::prm.is_positive(*name);
  for (unsigned i = 0; i < n; ++i) { v[i] = sym_f64(name->c_str()); if (pos) sym_assume(v[i] > 0); }
  return v;
}
extern "C" std::vector<unsigned> __wrap__ZN12WorldBuilder10Parameters10get_vectorIjEESt6vectorIT_SaIS3_EERKNSt7__cxx1112basic_stringIcSt11char_traitsIcESaIcEEE(Parameters *, const std::string *name)
{
  const unsigned n = H::prm.len_of(*name); std::vector<unsigned> v(n);
  for (unsigned i = 0; i < n; ++i) v[i] = sym_u32(name->c_str());
  return v;
}
extern "C" std::vector<bool> __wrap__ZN12WorldBuilder10Parameters10get_vectorIbEESt6vectorIT_SaIS3_EERKNSt7__cxx1112basic_stringIcSt11char_traitsIcESaIcEEE(Parameters *, const std::string *name)
{
  const unsigned n = H::prm.len_of(*name); std::vector<bool> v(n);
  for (unsigned i = 0; i < n; ++i) v[i] = sym_bool(name->c_str());
  return v;
}
extern "C" std::vector<std::array<double,3>> __wrap__ZN12WorldBuilder10Parameters10get_vectorISt5arrayIdLm3EEEESt6vectorIT_SaIS5_EERKNSt7__cxx1112basic_stringIcSt11char_traitsIcESaIcEEE(Parameters *, const std::string *name)
{
  const unsigned n = H::prm.len_of(*name); std::vector<std::array<double,3>> v(n);
  for (unsigned i = 0; i < n; ++i) for (unsigned j = 0; j < 3; ++j) v[i][j] = sym_f64(name->c_str());
  return v;
}
extern "C" std::vector<std::array<std::array<double,3>,3>> __wrap__ZN12WorldBuilder10Parameters10get_vectorISt5arrayIS2_IdLm3EELm3EEEESt6vectorIT_SaIS6_EERKNSt7__cxx1112basic_stringIcSt11char_traitsIcESaIcEEE(Parameters *, const std::string *name)
{
  const unsigned n = H::prm.len_of(*name); std::vector<std::array<std::array<double,3>,3>> v(n);
  for (unsigned i = 0; i < n; ++i) for (unsigned j = 0; j < 3; ++j) for (unsigned k = 0; k < 3; ++k) v[i][j][k] = sym_f64(name->c_str());
  return v;
}
extern "C" std::vector<std::vector<WorldBuilder::Point<2>>> __wrap__ZN12WorldBuilder10Parameters10get_vectorISt6vectorINS_5PointILj2EEESaIS4_EEEES2_IT_SaIS7_EERKNSt7__cxx1112basic_stringIcSt11char_traitsIcESaIcEEE(Parameters *, const std::string *name)
{
  // list of ridges, each a list of points; lengths: outer = len_of(name), inner = len_of("<inner>")
  const unsigned n = H::prm.len_of(*name), m = H::prm.len_of("<inner>");
  std::vector<std::vector<WorldBuilder::Point<2>>> v(n);
  for (unsigned i = 0; i < n; ++i) for (unsigned j = 0; j < m; ++j) v[i].emplace_back(sym_f64("ridge x"), sym_f64("ridge y"), WorldBuilder::cartesian);
  return v;
}
extern "C" std::vector<std::vector<double>> __wrap__ZN12WorldBuilder10Parameters20get_vector_or_doubleERKNSt7__cxx1112basic_stringIcSt11char_traitsIcESaIcEEE(Parameters *, const std::string *name)
{
  const unsigned n = H::prm.len_of(*name), m = H::prm.len_of("<inner values>");
  std::vector<std::vector<double>> v(n);
  for (unsigned i = 0; i < n; ++i) for (unsigned j = 0; j < m; ++j) v[i].push_back(sym_f64(name->c_str()));
  return v;
}
extern "C" std::pair<std::vector<double>,std::vector<double>> __wrap__ZN12WorldBuilder10Parameters18get_value_at_arrayERKNSt7__cxx1112basic_stringIcSt11char_traitsIcESaIcEEE(Parameters *, const std::string *name)
{
  std::pair<std::vector<double>,std::vector<double>> r;
  const unsigned n = H::prm.len_of(*name);
  r.first.push_back(0.0);                                    // time(s); the values (one, or one per ridge point) are in .second
  for (unsigned i = 0; i < n; ++i) r.second.push_back(sym_f64(name->c_str()));
  return r;
}
// "min depth"/"max depth" given as value or as values at points
extern "C" std::pair<std::vector<double>,std::vector<double>> __wrap__ZN12WorldBuilder10Parameters3getERKNSt7__cxx1112basic_stringIcSt11char_traitsIcESaIcEEERKSt6vectorINS_5PointILj2EEESaISB_EE
(Parameters *, const std::string *name, const std::vector<WorldBuilder::Point<2>> *)
{
  std::pair<std::vector<double>,std::vector<double>> r;
  r.first.push_back(sym_f64(name->c_str()));
  if (*name == "min depth") H::prm.last_table[0] = r.first[0]; else if (*name == "max depth") H::prm.last_table[1] = r.first[0];
  return r;
}
#endif
