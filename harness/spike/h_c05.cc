#include "world_builder/world.h"
#include "world_builder/features/continental_plate_models/temperature/linear.h"
#include "world_builder/features/continental_plate_models/temperature/chapman.h"
#include "world_builder/objects/natural_coordinate.h"
using namespace WorldBuilder;
using namespace WorldBuilder::Features::ContinentalPlateModels::Temperature;
extern "C" {
  double   sym_f64(const char *name);
  unsigned sym_u32(const char *name);
  void     sym_assume(bool);
  void     sym_assert(bool, const char *what);
}
alignas(World) static unsigned char wbuf[sizeof(World)];
alignas(Linear) static unsigned char mbuf[sizeof(Linear)];
alignas(Chapman) static unsigned char cbuf[sizeof(Chapman)];
alignas(Objects::NaturalCoordinate) static unsigned char nbuf[sizeof(Objects::NaturalCoordinate)];
extern "C" void h_c20_linear_env(void)
{
  World *w = reinterpret_cast<World *>(wbuf);
  w->potential_mantle_temperature = sym_f64("Tp"); w->thermal_expansion_coefficient = sym_f64("alpha"); w->specific_heat = sym_f64("cp");
  Linear *m = reinterpret_cast<Linear *>(mbuf);
  m->world = w;
  m->min_depth = sym_f64("mmin"); m->max_depth = sym_f64("mmax");
  m->top_temperature = sym_f64("top"); m->bottom_temperature = sym_f64("bot");
  m->operation = Features::FeatureUtilities::Operations::REPLACE;
  m->min_depth_surface.constant_value = true; m->max_depth_surface.constant_value = true;
  const double depth = sym_f64("depth"), fmin = sym_f64("fmin"), fmax = sym_f64("fmax"), g = sym_f64("g"), told = sym_f64("Told");
  sym_assume(m->min_depth >= 0 && m->max_depth > m->min_depth && fmin >= 0 && fmax > fmin);
  sym_assume(m->top_temperature >= 0 && m->bottom_temperature >= m->top_temperature);      // no sentinel, physically ordered
  const double lo = m->min_depth > fmin ? m->min_depth : fmin, hi = m->max_depth < fmax ? m->max_depth : fmax;
  sym_assume(hi - lo >= 1.0 && depth >= lo && depth <= hi);
  const Objects::NaturalCoordinate &nc = *reinterpret_cast<Objects::NaturalCoordinate *>(nbuf);
  const double T = m->Linear::get_temperature(Point<3>(0,0,0,cartesian), nc, depth, g, told, fmin, fmax);
  sym_assert(T >= m->top_temperature && T <= m->bottom_temperature, "linear envelope");
}
extern "C" void h_c05_chapman_sentinel(void)
{
  World *w = reinterpret_cast<World *>(wbuf);
  w->potential_mantle_temperature = sym_f64("Tp"); w->thermal_expansion_coefficient = sym_f64("alpha"); w->specific_heat = sym_f64("cp");
  Chapman *m = reinterpret_cast<Chapman *>(cbuf);
  m->world = w;
  m->min_depth = 0; m->max_depth = sym_f64("mmax");
  m->top_temperature = sym_f64("top"); m->top_heat_flux = sym_f64("q"); m->thermal_conductivity = sym_f64("k"); m->heat_production_per_unit_volume = sym_f64("A");
  m->operation = Features::FeatureUtilities::Operations::REPLACE;
  m->min_depth_surface.constant_value = true; m->max_depth_surface.constant_value = true;
  const double depth = sym_f64("depth"), fmin = 0, fmax = sym_f64("fmax"), g = sym_f64("g"), told = sym_f64("Told");
  sym_assume(m->max_depth > 0 && depth >= 0 && depth <= m->max_depth && m->thermal_conductivity > 0);
  sym_assume(m->top_temperature < 0);                         // documented: negative => adiabatic top temperature
  const Objects::NaturalCoordinate &nc = *reinterpret_cast<Objects::NaturalCoordinate *>(nbuf);
  const double T = m->Chapman::get_temperature(Point<3>(0,0,0,cartesian), nc, depth, g, told, fmin, fmax);
  // at the top of the model (depth == 0) the documented value is the adiabat at depth 0 = Tp * exp(0)
  sym_assume(depth == 0);
  sym_assert(T != m->top_temperature, "chapman: negative top temperature must not be used as is");
}
