#define main gwb_grid_main
#include "/repo/source/gwb-grid/main.cc"
#undef main
extern "C" { unsigned long sym_u64(const char*); void sym_assume(bool); void sym_assert(bool,const char*); void sym_visit(unsigned long k); }
extern "C" void h_c14_slices(unsigned long P)
{
  ThreadPool pool(P);
  const unsigned long n = sym_u64("n");
  sym_assume(n < (1ul<<53));
  pool.parallel_for(0, n, [](size_t k){ sym_visit(k); });
}
