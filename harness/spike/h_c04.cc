#include "world_builder/world.h"
#include "world_builder/features/continental_plate.h"
#include "world_builder/features/continental_plate_models/temperature/interface.h"
#include "world_builder/coordinate_systems/cartesian.h"
#include "world_builder/objects/natural_coordinate.h"
#include <new>
using namespace WorldBuilder;
extern "C" {
  double   sym_f64(const char *name);
  unsigned sym_u32(const char *name);
  void     sym_assume(bool);
  void     sym_assert(bool, const char *what);
  double   sym_uf2(unsigned id, double a, double b);
}
struct StubT final : Features::ContinentalPlateModels::Temperature::Interface
{
  unsigned id;
  void parse_entries(Parameters &, const std::vector<Point<2>> &) override {}
  double get_temperature(const Point<3> &, const Objects::NaturalCoordinate &, const double depth, const double, double t_old, const double, const double) const override
  { return sym_uf2(id, depth, t_old); }
};
alignas(World) static unsigned char wbuf[sizeof(World)];
alignas(Features::ContinentalPlate) static unsigned char fbuf[sizeof(Features::ContinentalPlate)];
extern "C" void h_c04_guard_continental(void)
{
  World *w = reinterpret_cast<World *>(wbuf);
  new (&w->parameters.coordinate_system) std::unique_ptr<CoordinateSystems::Interface>(new CoordinateSystems::Cartesian(w));
  auto *f = reinterpret_cast<Features::ContinentalPlate *>(fbuf);
  f->world = w; f->tag_index = 7;
  new (&f->coordinates) std::vector<Point<2>>(3, Point<2>(0,0,cartesian));
  f->min_depth = sym_f64("min"); f->max_depth = sym_f64("max");
  f->min_depth_surface.constant_value = true; f->max_depth_surface.constant_value = true;
  new (&f->temperature_models) std::vector<std::unique_ptr<Features::ContinentalPlateModels::Temperature::Interface>>();
  new (&f->composition_models) std::vector<std::unique_ptr<Features::ContinentalPlateModels::Composition::Interface>>();
  new (&f->grains_models) std::vector<std::unique_ptr<Features::ContinentalPlateModels::Grains::Interface>>();
  new (&f->velocity_models) std::vector<std::unique_ptr<Features::ContinentalPlateModels::Velocity::Interface>>();
  auto *m = new StubT(); m->id = 1; f->temperature_models.emplace_back(m);
  const Point<3> pos(sym_f64("x"), sym_f64("y"), sym_f64("z"), cartesian);
  const Objects::NaturalCoordinate nc(pos, *w->parameters.coordinate_system);
  const double depth = sym_f64("depth");
  const std::vector<std::array<unsigned,3>> props = {{{1,0,0}}, {{4,0,0}}};
  const std::vector<size_t> entry = {0, 1};
  const double T0 = sym_f64("T0");
  std::vector<double> out = {T0, -1.0};
  f->Features::ContinentalPlate::properties(pos, nc, depth, props, sym_f64("g"), entry, out);
  const bool painted = out[1] == 7.0;
  // oracle: inside <=> polygon(P) and min <= depth <= max ; P is the override's fresh Boolean, observed through the result
  sym_assert(out[1] == 7.0 || out[1] == -1.0, "tag is own index or untouched");
  sym_assert(!painted || (depth >= f->min_depth && depth <= f->max_depth), "painted only inside the closed depth range");
  sym_assert(painted || out[0] == T0 || T0 != T0, "not painted => temperature untouched");
  sym_assert(!painted || out[0] == sym_uf2(1, depth, T0), "painted => temperature is the model applied to the old value");
}
