#include "world_builder/world.h"
#include "world_builder/features/interface.h"
#include "world_builder/coordinate_systems/cartesian.h"
#include "world_builder/gravity_model/uniform.h"
#include <new>
using namespace WorldBuilder;
extern "C" {
  double   sym_f64(const char *name);
  unsigned sym_u32(const char *name);
  bool     sym_bool(const char *name);
  void     sym_assume(bool);
  void     sym_assert(bool, const char *what);
  double   sym_uf_slot(unsigned feature, unsigned kind, unsigned n, unsigned k, unsigned slot);
}
struct StubFeature final : Features::Interface
{
  unsigned id; bool inside;
  void parse_entries(Parameters &) override {}
  void properties(const Point<3> &, const Objects::NaturalCoordinate &, const double,
                  const std::vector<std::array<unsigned int,3>> &properties, const double,
                  const std::vector<size_t> &entry_in_output, std::vector<double> &output) const override
  {
    if (!inside) return;
    for (unsigned i = 0; i < properties.size(); ++i)
      {
        const unsigned kind = properties[i][0];
        const unsigned width = kind == 3 ? properties[i][2]*10 : (kind == 5 ? 3 : 1);
        for (unsigned s = 0; s < width; ++s)
          output[entry_in_output[i]+s] = sym_uf_slot(id, kind, properties[i][1], properties[i][2], s);
      }
  }
};
alignas(World) static unsigned char wbuf[sizeof(World)];
static World *make_world(unsigned n_features)
{
  World *w = reinterpret_cast<World *>(wbuf);
  w->dim = 3;
  w->potential_mantle_temperature = sym_f64("Tp");
  w->surface_temperature = sym_f64("Ts");
  w->force_surface_temperature = sym_bool("force");
  w->thermal_expansion_coefficient = sym_f64("alpha");
  w->specific_heat = sym_f64("cp");
  new (&w->parameters.coordinate_system) std::unique_ptr<CoordinateSystems::Interface>(new CoordinateSystems::Cartesian(w));
  auto *g = new GravityModel::Uniform(w); g->gravity_magnitude = sym_f64("g");
  new (&w->parameters.gravity_model) std::unique_ptr<GravityModel::Interface>(g);
  new (&w->parameters.features) std::vector<std::unique_ptr<Features::Interface>>();
  for (unsigned f = 0; f < n_features; ++f)
    {
      auto *s = new StubFeature(); s->id = f; s->inside = sym_bool("inside");
      w->parameters.features.emplace_back(s);
    }
  return w;
}
extern "C" void h_c01_size_layout3(void)
{
  World *w = make_world(1);
  const unsigned L = sym_u32("L"); sym_assume(L >= 1 && L <= 3);
  std::vector<std::array<unsigned,3>> props;
  for (unsigned i = 0; i < L; ++i)
    {
      std::array<unsigned,3> p = {{sym_u32("kind"), sym_u32("n"), sym_u32("k")}};
      sym_assume(p[0] >= 1 && p[0] <= 5 && p[1] < 4 && p[2] <= 2);
      props.push_back(p);
    }
  const std::array<double,3> pt = {{sym_f64("x"), sym_f64("y"), sym_f64("z")}};
  const double depth = sym_f64("depth");
  const std::vector<double> batched = w->properties(pt, depth, props);
  sym_assert(batched.size() == w->properties_output_size(props), "size");
  unsigned off = 0;
  for (unsigned i = 0; i < L; ++i)
    {
      const std::vector<double> single = w->properties(pt, depth, {props[i]});
      for (unsigned s = 0; s < single.size(); ++s)
        sym_assert(batched[off+s] == single[s] || (batched[off+s] != batched[off+s] && single[s] != single[s]), "block");
      off += static_cast<unsigned>(single.size());
    }
}

extern "C" void h_c01_layout2(void)
{
  World *w = make_world(1);
  w->dim = 2;
  new (&w->cross_section) std::vector<Point<2>>();
  w->cross_section.emplace_back(sym_f64("o0"), sym_f64("o1"), cartesian);
  w->cross_section.emplace_back(sym_f64("e0"), sym_f64("e1"), cartesian);
  w->surface_coord_conversions = Point<2>(sym_f64("d0"), sym_f64("d1"), cartesian);
  w->force_surface_temperature = false;
  const unsigned L = 2;
  std::vector<std::array<unsigned,3>> props;
  for (unsigned i = 0; i < L; ++i)
    {
      std::array<unsigned,3> p = {{sym_u32("kind"), sym_u32("n"), sym_u32("k")}};
      sym_assume(p[0] >= 1 && p[0] <= 5 && p[1] < 4 && p[2] <= 2);
      props.push_back(p);
    }
  const std::array<double,2> pt = {{sym_f64("x"), sym_f64("z")}};
  const double depth = sym_f64("depth");
  const std::vector<double> batched = w->properties(pt, depth, props);
  sym_assert(batched.size() == w->properties_output_size(props), "size2d");
  unsigned off = 0;
  for (unsigned i = 0; i < L; ++i)
    {
      const std::vector<double> single = w->properties(pt, depth, {props[i]});
      for (unsigned s = 0; s < single.size(); ++s)
        sym_assert(batched[off+s] == single[s] || (batched[off+s] != batched[off+s] && single[s] != single[s]), "block2d");
      off += static_cast<unsigned>(single.size());
    }
}
