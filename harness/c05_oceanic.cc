// C05 / C20: oceanic plate cooling models (half-space, plate model, constant-age plate model).
// calculate_ridge_distance_and_spreading is an environment stub here (spreading velocity > 0, distance >= 0);
// its own arithmetic is checked in c05_ridge.cc.
#include "frame_area.h"
#include "prm_stub.h"
#include "world_builder/features/feature_utilities.h"
#include "world_builder/features/oceanic_plate_models/temperature/half_space_model.h"
#include "world_builder/features/oceanic_plate_models/temperature/plate_model.h"
#include "world_builder/features/oceanic_plate_models/temperature/plate_model_constant_age.h"
#include <cmath>
using namespace H;
using Features::FeatureUtilities::Operations;
namespace OT = WorldBuilder::Features::OceanicPlateModels::Temperature;
namespace
{
  struct { unsigned calls; double vel, dist; double depth_coord; } ridge;
  double combine(const Operations op, const double old, const double value)
  { return op == Operations::ADD ? old + value : (op == Operations::SUBTRACT ? old - value : value); }
  double adiabat(const World *w, const double g, const double d) { return w->potential_mantle_temperature * std::exp(w->thermal_expansion_coefficient * g * d / w->specific_heat); }
  template <class M> M *build(World *&w, std::vector<Point<2>> &coords, unsigned long surf)
  {
    w = make_world(0);
    w->thermal_diffusivity = sym_f64("kappa");
    sym_assume(w->specific_heat > 0 && w->thermal_diffusivity > 0);
    coords.assign(3, Point<2>(0, 0, cartesian));
    prm.set_len("ridge coordinates", 1); prm.set_len("<inner>", 2); prm.set_len("spreading velocity", 1);
    M *m = new M(w);
    m->parse_entries(w->parameters, coords);
    m->min_depth_surface.constant_value = !(surf & 1); m->max_depth_surface.constant_value = !(surf & 2);
    env = Env(); ridge.calls = 0;
    return m;
  }
  template <class M> bool in_model_range(const M *m, const double depth, unsigned long surf)
  {
    double lmin = m->min_depth, lmax = m->max_depth; unsigned c = 0;
    if ((surf & 1) && env.surf_calls > c) lmin = env.surf_value[c++];
    if ((surf & 2) && env.surf_calls > c) lmax = env.surf_value[c++];
    return depth <= m->max_depth && depth >= m->min_depth && depth <= lmax && depth >= lmin;
  }
}
extern "C" std::vector<double> __wrap__ZN12WorldBuilder9Utilities38calculate_ridge_distance_and_spreadingESt6vectorIS1_INS_5PointILj2EEESaIS3_EESaIS5_EES1_IS1_IdSaIdEESaIS9_EERKSt10unique_ptrINS_17CoordinateSystems9InterfaceESt14default_deleteISE_EERKNS_7Objects17NaturalCoordinateERKSB_RKS9_
(std::vector<std::vector<Point<2>>> *, std::vector<std::vector<double>> *, const std::unique_ptr<CoordinateSystems::Interface> *, const Objects::NaturalCoordinate *nc, const std::vector<std::vector<double>> *, const std::vector<double> *)
{
  ++ridge.calls; ridge.vel = sym_f64("spreading velocity m/s"); ridge.dist = sym_f64("ridge distance"); ridge.depth_coord = nc->get_depth_coordinate();
  sym_assume(ridge.vel > 0 && ridge.dist >= 0);
  return {ridge.vel, ridge.dist, 0., 0.};
}

// mode 0: closed form; 1: envelope top <= T <= bottom (C20); 2: boundary value at the top (C20)
extern "C" void h_c05_half_space(unsigned long surf, unsigned long mode)
{
  World *w; std::vector<Point<2>> coords; auto *m = build<OT::HalfSpaceModel>(w, coords, surf);
  const Point<3> pos(sym_f64("x"), sym_f64("y"), sym_f64("z"), cartesian); const Objects::NaturalCoordinate nc(pos, *w->parameters.coordinate_system);
  const double depth = sym_f64("depth"), old = sym_f64("Told"), g = sym_f64("gravity");
  sym_assume(depth >= 0);
  sym_freeze(); sym_allow(&env); sym_allow(&ridge);
  const double T = m->OT::HalfSpaceModel::get_temperature(pos, nc, depth, g, old, sym_f64("fmin"), sym_f64("fmax"));
  sym_assert(sym_writes() == 0, "the model query stores only to fresh memory");
  if (!in_model_range(m, depth, surf)) { sym_assert(sym_eq(T, old), "outside its own range the model returns the incoming value"); sym_reach("end-out"); return; }
  const double Tb = m->bottom_temperature >= 0 ? m->bottom_temperature : adiabat(w, g, depth);          // negative => adiabat at this depth
  const double age = ridge.dist / ridge.vel;                                                      // ridge distance over spreading velocity
  if (mode == 0)
    {
      const double value = age > 0 ? Tb + (m->top_temperature - Tb) * std::erfc(depth / (2 * std::sqrt(w->thermal_diffusivity * age))) : Tb;
      sym_assert(sym_eq(T, combine(m->operation, old, value)), "half-space cooling: Tb + (Tt - Tb) erfc(depth / (2 sqrt(kappa age))), age = ridge distance / spreading velocity");
    }
  else if (mode == 1)
    {
      sym_assume(m->operation == Operations::REPLACE && m->top_temperature >= 0 && m->top_temperature <= Tb);       // physically ordered end members
      sym_assert(T >= m->top_temperature && T <= Tb, "half-space cooling stays between top and bottom temperature");
    }
  else
    {
      sym_assume(m->operation == Operations::REPLACE && depth == 0 && age > 0);
      sym_assert(sym_eq(T, m->top_temperature), "half-space cooling attains the top temperature at depth zero");
    }
  sym_reach("end");
}

// monotonicity (C20): two evaluations of the same model, deeper is hotter, older is colder
extern "C" void h_c20_half_space_mono(unsigned long which)
{
  World *w; std::vector<Point<2>> coords; auto *m = build<OT::HalfSpaceModel>(w, coords, 0);
  const Point<3> pos(sym_f64("x"), sym_f64("y"), sym_f64("z"), cartesian); const Objects::NaturalCoordinate nc(pos, *w->parameters.coordinate_system);
  const double g = sym_f64("gravity"), old = sym_f64("Told");
  sym_assume(m->operation == Operations::REPLACE && m->bottom_temperature >= 0 && m->top_temperature >= 0 && m->top_temperature <= m->bottom_temperature);
  const double d1 = sym_f64("depth1"), d2 = which == 0 ? sym_f64("depth2") : d1;
  sym_assume(d1 >= 0 && d2 >= d1 && d1 >= m->min_depth && d2 <= m->max_depth);
  const double T1 = m->OT::HalfSpaceModel::get_temperature(pos, nc, d1, g, old, 0, 0);
  const double v1 = ridge.vel, s1 = ridge.dist;
  const double T2 = m->OT::HalfSpaceModel::get_temperature(pos, nc, d2, g, old, 0, 0);
  const double v2 = ridge.vel, s2 = ridge.dist;
  if (which == 0)
    {
      sym_assume(v1 == v2 && s1 == s2 && s1 > 0);                 // same column
      sym_assert(T2 >= T1, "half-space cooling: temperature rises with depth");
    }
  else
    {
      sym_assume(v1 == v2 && s2 >= s1 && s1 > 0);                 // same depth, second point is older
      sym_assert(T2 <= T1, "half-space cooling: temperature falls with lithospheric age");
    }
  sym_reach("end");
}

namespace
{
  template <class M> double plate_series(const M *m, const World *w, const double depth, const double Tb, const bool constant_age, const double vel, const double age)
  {
    // documented plate model: T = Tt + (Tb - Tt) [ z/L + sum_{n=1..100} 2/(n pi) sin(n pi z / L) exp(...) ]
    const double L = m->max_depth, kappa = w->thermal_diffusivity, pi = Consts::PI;
    double T = m->top_temperature + (Tb - m->top_temperature) * (depth / L);
    for (int n = 1; n <= 100; ++n)
      {
        const double decay = constant_age ? std::exp(-1.0 * n * n * pi * pi * kappa * age / (L * L))
                             : std::exp((((vel * L) / (2 * kappa)) - std::sqrt(((vel * vel * L * L) / (4 * kappa * kappa)) + double(n) * double(n) * pi * pi)) * ((vel * age) / L));
        T = T + (Tb - m->top_temperature) * ((2 / (double(n) * pi)) * std::sin((double(n) * pi * depth) / L) * decay);
      }
    return T;
  }
}
extern "C" void h_c05_plate_model(unsigned long surf, unsigned long constant_age)
{
  World *w; std::vector<Point<2>> coords;
  const Point<3> pos(1., 2., 3., cartesian);
  double T, depth, old, g; bool in; double Tb, value;
  if (constant_age)
    {
      auto *m = build<OT::PlateModelConstantAge>(w, coords, surf);
      const Objects::NaturalCoordinate nc(pos, *w->parameters.coordinate_system);
      depth = sym_f64("depth"); old = sym_f64("Told"); g = sym_f64("gravity"); sym_assume(depth >= 0 && m->max_depth > 0);
      sym_freeze(); sym_allow(&env); sym_allow(&ridge);
      T = m->OT::PlateModelConstantAge::get_temperature(pos, nc, depth, g, old, 0, 0);
      sym_assert(sym_writes() == 0, "the model query stores only to fresh memory");
      in = in_model_range(m, depth, surf);
      Tb = m->bottom_temperature >= 0 ? m->bottom_temperature : adiabat(w, g, depth);
      value = in ? plate_series(m, w, depth, Tb, true, 0., m->plate_age) : 0.;
      if (in) sym_assert(sym_eq(T, combine(m->operation, old, value)), "constant-age plate model: 100-term plate cooling series with the configured age");
    }
  else
    {
      auto *m = build<OT::PlateModel>(w, coords, surf);
      const Objects::NaturalCoordinate nc(pos, *w->parameters.coordinate_system);
      depth = sym_f64("depth"); old = sym_f64("Told"); g = sym_f64("gravity"); sym_assume(depth >= 0 && m->max_depth > 0);
      sym_freeze(); sym_allow(&env); sym_allow(&ridge);
      T = m->OT::PlateModel::get_temperature(pos, nc, depth, g, old, 0, 0);
      sym_assert(sym_writes() == 0, "the model query stores only to fresh memory");
      in = in_model_range(m, depth, surf);
      Tb = m->bottom_temperature >= 0 ? m->bottom_temperature : adiabat(w, g, depth);
      value = in ? plate_series(m, w, depth, Tb, false, ridge.vel, ridge.dist / ridge.vel) : 0.;
      if (in) sym_assert(sym_eq(T, combine(m->operation, old, value)), "plate model: 100-term plate cooling series with age = ridge distance / spreading velocity");
    }
  if (!in) sym_assert(sym_eq(T, old), "outside its own range the model returns the incoming value");
  sym_reach("end");
}
