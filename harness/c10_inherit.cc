// C10.inherit: segment model inheritance in Parameters::get_vector<Segment<...>> (slab and fault).  The REAL function (and the real
// get_shared_pointers) runs against a rapidjson DOM built by the harness; only the plugin factories T::create(name, world) are replaced by
// stubs that return a model object carrying the number encoded in its "model" name.  A segment that lists models of a kind uses exactly those;
// otherwise it uses the default list handed in (its section's or the feature's); and parsing the same segments a second time - as
// SubductingPlate/Fault::parse_entries do for every coordinate - gives the same answer (the first pass leaves copies and markers in the DOM).
#define RAPIDJSON_48BITPOINTER_OPTIMIZATION 0
#include "common.h"
#include "world_builder/parameters.h"
#include "world_builder/objects/segment.h"
#include "world_builder/features/subducting_plate_models/temperature/interface.h"
#include "world_builder/features/subducting_plate_models/composition/interface.h"
#include "world_builder/features/subducting_plate_models/grains/interface.h"
#include "world_builder/features/subducting_plate_models/velocity/interface.h"
#include "world_builder/features/fault_models/temperature/interface.h"
#include "world_builder/features/fault_models/composition/interface.h"
#include "world_builder/features/fault_models/grains/interface.h"
#include "world_builder/features/fault_models/velocity/interface.h"
#include "rapidjson/document.h"
#include <cstdlib>
using namespace H;
using namespace rapidjson;
typedef WorldBuilder::Utilities::PointDistanceFromCurvedPlanes PD;
namespace SPM = WorldBuilder::Features::SubductingPlateModels;
namespace FLM = WorldBuilder::Features::FaultModels;
namespace
{
  template <class I> struct MT final : I { unsigned id; void parse_entries(Parameters &) override {}
    double get_temperature(const Point<3> &, const double, const double, double t, const double, const double, const PD &, const Features::AdditionalParameters &) const override { return t; } };
  template <class I> struct MC final : I { unsigned id; void parse_entries(Parameters &) override {}
    double get_composition(const Point<3> &, const double, const unsigned int, double c, const double, const double, const PD &, const Features::AdditionalParameters &) const override { return c; } };
  template <class I> struct MG final : I { unsigned id; void parse_entries(Parameters &) override {}
    WorldBuilder::grains get_grains(const Point<3> &, const double, const unsigned int, WorldBuilder::grains g, const double, const double, const PD &, const Features::AdditionalParameters &) const override { return g; } };
  template <class I> struct MV final : I { unsigned id; void parse_entries(Parameters &) override {}
    std::array<double,3> get_velocity(const Point<3> &, const double, const double, std::array<double,3> v, const double, const double, const PD &, const Features::AdditionalParameters &) const override { return v; } };
  unsigned id_of(const std::string &name) { unsigned v = 0; for (size_t i = 1; i < name.size(); ++i) v = 10 * v + unsigned(name[i] - '0'); return v; }      // "m123" -> 123
  template <class S, class I> std::unique_ptr<I> make(const std::string *name) { auto *m = new S(); m->id = id_of(*name); return std::unique_ptr<I>(m); }
}
#define FACTORY(NSLEN, NS, KLEN, KIND, STUB) \
  extern "C" std::unique_ptr<WorldBuilder::Features::NS::KIND::Interface> __wrap__ZN12WorldBuilder8Features##NSLEN##NS##KLEN##KIND##9Interface6createERKNSt7__cxx1112basic_stringIcSt11char_traitsIcESaIcEEEPNS_5WorldE(const std::string *name, World *) \
  { return make<STUB<WorldBuilder::Features::NS::KIND::Interface>, WorldBuilder::Features::NS::KIND::Interface>(name); }
FACTORY(21, SubductingPlateModels, 11, Temperature, MT) FACTORY(21, SubductingPlateModels, 11, Composition, MC) FACTORY(21, SubductingPlateModels, 6, Grains, MG) FACTORY(21, SubductingPlateModels, 8, Velocity, MV)
FACTORY(11, FaultModels, 11, Temperature, MT) FACTORY(11, FaultModels, 11, Composition, MC) FACTORY(11, FaultModels, 6, Grains, MG) FACTORY(11, FaultModels, 8, Velocity, MV)

namespace
{
  const char *KEYS[4] = {"temperature models", "composition models", "grains models", "velocity models"};
  Value model_list(const unsigned first_id, const unsigned n, Document::AllocatorType &a)
  {
    Value arr(kArrayType);
    for (unsigned j = 0; j < n; ++j)
      {
        char nm[8]; const unsigned id = first_id + j; nm[0] = 'm'; nm[1] = char('0' + id / 100); nm[2] = char('0' + (id / 10) % 10); nm[3] = char('0' + id % 10); nm[4] = 0;
        Value m(kObjectType); m.AddMember("model", Value(nm, a), a); arr.PushBack(m, a);
      }
    return arr;
  }
  template <class V> bool ids_are(const V &systems, const unsigned first_id, const unsigned n, unsigned (*get)(const typename V::value_type &))
  { if (systems.size() != n) return false; for (unsigned j = 0; j < n; ++j) if (get(systems[j]) != first_id + j) return false; return true; }
  template <class Tf, class Cf, class Gf, class Vf>
  void inherit(const unsigned feat_mask, const unsigned seg0_mask, const unsigned seg1_mask, const unsigned nseg)
  {
    typedef Objects::Segment<Tf, Cf, Gf, Vf> Seg;
    World *w = make_world(0);
    Parameters &prm = w->parameters;
    new (&prm.path) std::vector<std::string>(); new (&prm.parameters) Document(); new (&prm.declarations) Document();
    const unsigned masks[2] = {seg0_mask, seg1_mask};
    double len[2], th[2][2], an[2][2], tt[2];
    {
      Document &d = prm.parameters; d.SetObject(); auto &a = d.GetAllocator();
      Value feature(kObjectType);
      for (unsigned k = 0; k < 4; ++k) if (feat_mask & (1u << k)) feature.AddMember(Value(KEYS[k], a), model_list(700 + 10 * k, 1, a), a);     // the feature's own lists (JSON only; the objects are the default vectors below)
      Value segments(kArrayType);
      for (unsigned i = 0; i < nseg; ++i)
        {
          Value s(kObjectType);
          len[i] = sym_f64("length"); th[i][0] = sym_f64("thickness 0"); th[i][1] = sym_f64("thickness 1"); an[i][0] = sym_f64("angle"); tt[i] = sym_f64("top truncation");
          s.AddMember("length", Value(len[i]), a);
          Value t(kArrayType); t.PushBack(Value(th[i][0]), a); if (i == 1) t.PushBack(Value(th[i][1]), a); s.AddMember("thickness", t, a);          // one value = both ends; segment 1 gives two
          Value g(kArrayType); g.PushBack(Value(an[i][0]), a); s.AddMember("angle", g, a);
          if (i == 0) { Value q(kArrayType); q.PushBack(Value(tt[i]), a); s.AddMember("top truncation", q, a); }                                    // optional entry
          for (unsigned k = 0; k < 4; ++k) if (masks[i] & (1u << k)) s.AddMember(Value(KEYS[k], a), model_list(100 * (i + 1) + 10 * k, 2, a), a);   // the segment's own lists: two models each
          segments.PushBack(s, a);
        }
      feature.AddMember("segments", segments, a);
      Value features(kArrayType); features.PushBack(feature, a);
      d.AddMember("features", features, a);
    }
    prm.path.push_back("features"); prm.path.push_back("0");
    // default lists handed in by the feature (or section): one stub model per kind with ids 900, 910, 920, 930
    std::vector<std::shared_ptr<Tf>> dT; std::vector<std::shared_ptr<Cf>> dC; std::vector<std::shared_ptr<Gf>> dG; std::vector<std::shared_ptr<Vf>> dV;
    { auto *m = new MT<Tf>(); m->id = 900; dT.emplace_back(m); } { auto *m = new MC<Cf>(); m->id = 910; dC.emplace_back(m); }
    { auto *m = new MG<Gf>(); m->id = 920; dG.emplace_back(m); } { auto *m = new MV<Vf>(); m->id = 930; dV.emplace_back(m); }
    for (unsigned pass = 0; pass < 2; ++pass)
      {
        const std::vector<Seg> v = prm.template get_vector<Seg>("segments", dT, dC, dG, dV);
        sym_assert(v.size() == nseg && prm.path.size() == 2, "one segment object per listed segment; the parameter path is restored");
        for (unsigned i = 0; i < nseg && i < v.size(); ++i)
          {
            sym_assert(sym_same(v[i].value_length, len[i]) && sym_same(v[i].value_thickness[0], th[i][0]) && sym_same(v[i].value_thickness[1], i == 1 ? th[i][1] : th[i][0])
                       && sym_same(v[i].value_angle[0], an[i][0]) && sym_same(v[i].value_angle[1], an[i][0]) && (i != 0 || (sym_same(v[i].value_top_truncation[0], tt[i]) && sym_same(v[i].value_top_truncation[1], tt[i]))),
                       "segment geometry is read as listed (a single value stands for both ends)");
            const bool ok_T = (masks[i] & 1u) ? ids_are(v[i].temperature_systems, 100 * (i + 1), 2, +[](const std::shared_ptr<Tf> &p) { return static_cast<const MT<Tf> *>(p.get())->id; })
                                             : (v[i].temperature_systems.size() == 1 && v[i].temperature_systems[0] == dT[0]);
            const bool ok_C = (masks[i] & 2u) ? ids_are(v[i].composition_systems, 100 * (i + 1) + 10, 2, +[](const std::shared_ptr<Cf> &p) { return static_cast<const MC<Cf> *>(p.get())->id; })
                                             : (v[i].composition_systems.size() == 1 && v[i].composition_systems[0] == dC[0]);
            const bool ok_G = (masks[i] & 4u) ? ids_are(v[i].grains_systems, 100 * (i + 1) + 20, 2, +[](const std::shared_ptr<Gf> &p) { return static_cast<const MG<Gf> *>(p.get())->id; })
                                             : (v[i].grains_systems.size() == 1 && v[i].grains_systems[0] == dG[0]);
            const bool ok_V = (masks[i] & 8u) ? ids_are(v[i].velocity_systems, 100 * (i + 1) + 30, 2, +[](const std::shared_ptr<Vf> &p) { return static_cast<const MV<Vf> *>(p.get())->id; })
                                             : (v[i].velocity_systems.size() == 1 && v[i].velocity_systems[0] == dV[0]);
            sym_assert(ok_T, pass == 0 ? "temperature models: the segment's own list if it has one, else the default list handed in" : "temperature models: parsing the segments again gives the same answer");
            sym_assert(ok_C, pass == 0 ? "composition models: the segment's own list if it has one, else the default list handed in" : "composition models: parsing the segments again gives the same answer");
            sym_assert(ok_G, pass == 0 ? "grains models: the segment's own list if it has one, else the default list handed in" : "grains models: parsing the segments again gives the same answer");
            sym_assert(ok_V, pass == 0 ? "velocity models: the segment's own list if it has one, else the default list handed in" : "velocity models: parsing the segments again gives the same answer");
          }
      }
    sym_reach("end");
  }
}
extern "C" void h_c10_inherit(unsigned long fault, unsigned long feat_mask, unsigned long seg0_mask, unsigned long seg1_mask, unsigned long nseg)
{
  if (fault) inherit<FLM::Temperature::Interface, FLM::Composition::Interface, FLM::Grains::Interface, FLM::Velocity::Interface>(unsigned(feat_mask), unsigned(seg0_mask), unsigned(seg1_mask), unsigned(nseg));
  else inherit<SPM::Temperature::Interface, SPM::Composition::Interface, SPM::Grains::Interface, SPM::Velocity::Interface>(unsigned(feat_mask), unsigned(seg0_mask), unsigned(seg1_mask), unsigned(nseg));
}
