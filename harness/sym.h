// Harness-side primitives.  In the symbolic run they are intercepted by the executor (engine/externs.py);
// in the native build (-DSYM_NATIVE, translation validation and counterexample replay) harness/replay_rt.cc
// implements them by reading the concrete input list in call order.
#ifndef WB_VERIF_SYM_H
#define WB_VERIF_SYM_H
#include <cstddef>
extern "C" {
  double        sym_f64(const char *name);
  unsigned      sym_u32(const char *name);
  unsigned long sym_u64(const char *name);
  unsigned char sym_u8(const char *name);
  bool          sym_bool(const char *name);
  void          sym_assume(bool);
  void          sym_assert(bool, const char *what);
  bool          sym_same(double, double);          // bit identity (NaN is NaN, +0 is not -0)
  bool          sym_eq(double, double);            // symbolic run: exact equality of the mode; native: equal up to 1e-9 relative
  void          sym_reach(const char *what);       // reachability witness
  void          sym_out(const char *name, double v);          // observable output (compared native vs. engine)
  void          sym_out_u64(const char *name, unsigned long v);
  double        sym_uf1(unsigned id, double a);                 // uninterpreted functions = arbitrary but fixed model behaviour
  double        sym_uf2(unsigned id, double a, double b);
  double        sym_uf3(unsigned id, double a, double b, double c);
  double        sym_uf4(unsigned id, double a, double b, double c, double d);
  double        sym_ufi(unsigned a, unsigned b, unsigned c, unsigned d, unsigned e);
  void          sym_freeze(void);                  // every object alive now becomes "pre-existing": later stores to it are recorded
  void          sym_allow(const void *p);          // ... except into this object
  unsigned      sym_writes(void);                  // number of recorded stores to pre-existing objects
  bool          sym_decide(bool);                  // symbolic run: case split, concrete result on each side; native: identity
  void          sym_run_ctors(const char *tu);     // symbolic run: execute the dynamic initialisers of that translation unit (e.g. "world.cc"); native: nothing (already run)
  void          sym_event(const char *what, unsigned long v);
}
#endif
