// C14.slices: gwb-grid's ThreadPool::parallel_for hands out disjoint, contiguous slices covering exactly [start,end).
// main.cc is compiled unchanged; the identifier `thread` is mapped to a recording class so that no thread is started:
// each would-be thread's slice (k1,k2) is recorded instead (schedules are discharged by the frame argument, DESIGN.md 4/C14).
#include <thread>
#include <vector>
#include <string>
#include <iostream>
#include <fstream>
#include <sstream>
#include <algorithm>
#include <cmath>
#include <memory>
#include <array>
#include <map>
#include <unordered_map>
#include <functional>
#include <numeric>
#include <limits>
#include <iomanip>
#include <set>
#include "sym.h"
#include "world_builder/world.h"
#include "world_builder/utilities.h"
#include "world_builder/point.h"
#include "world_builder/assert.h"
#include "world_builder/coordinate_system.h"
#include "world_builder/config.h"
#include "vtu11/vtu11.hpp"
namespace verif { struct Slice { unsigned long k1, k2; }; static Slice slices[64]; static unsigned n_slices = 0; static unsigned n_joined = 0; }
namespace std
{
  struct verif_thread
  {
    bool started = false;
    verif_thread() = default;
    template <class F> verif_thread(F, size_t k1, size_t k2) : started(true) { if (verif::n_slices < 64) { verif::slices[verif::n_slices].k1 = k1; verif::slices[verif::n_slices].k2 = k2; } ++verif::n_slices; }
    bool joinable() const { return started; }
    void join() { started = false; ++verif::n_joined; }
    static unsigned hardware_concurrency() { return 1; }
  };
}
#define thread verif_thread
#define main gwb_grid_main
#include "gwb-grid/main.cc"
#undef main
#undef thread

extern "C" void h_c14_slices(unsigned long P)
{
  ThreadPool pool(P);
  const unsigned long start = sym_u64("start"), end = sym_u64("end");
  sym_assume(start <= end && end < (1ul << 24));
  pool.parallel_for(start, end, [](size_t) {});
  const unsigned n = verif::n_slices;
  sym_assert(n <= P && n <= 64, "at most one slice per thread");
  sym_assert(verif::n_joined == n, "every started thread is joined");
  if (start == end) sym_assert(n == 0, "an empty range starts no thread");
  else
    {
      sym_assert(n >= 1 && verif::slices[0].k1 == start, "the first slice starts at the first node");
      for (unsigned i = 0; i < n && i < 64; ++i)
        {
          sym_assert(verif::slices[i].k1 < verif::slices[i].k2, "slices are non-empty");
          if (i) sym_assert(verif::slices[i].k1 == verif::slices[i-1].k2, "slices are contiguous and disjoint");
        }
      if (n >= 1 && n <= 64) sym_assert(verif::slices[n-1].k2 == end, "the last slice ends at the last node");
    }
  sym_reach("end");
}
