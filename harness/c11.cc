// C11: depth surfaces given at points.  The Delaunay triangulator is replaced (through its include guard) by a stub
// returning an ARBITRARY VALID triangulation of the given points in the orientation delaunator produces (clockwise):
// the statement says "whatever triangulation is chosen".  Surface's constructor, kd-tree, in_triangle and
// local_value are the real code (surface.cc is compiled into this unit).
#include "common.h"
#include <cmath>
#define WORLD_BUILDER_DELAUNATOR_CPP_DELAUNATOR_HPP
namespace delaunator
{
  class Delaunator
  {
    public:
      std::vector<double> const &coords;
      std::vector<std::size_t> triangles;
      static double cross(const std::vector<double> &c, size_t a, size_t b, size_t d)
      { return (c[2*b] - c[2*a]) * (c[2*d+1] - c[2*b+1]) - (c[2*b+1] - c[2*a+1]) * (c[2*d] - c[2*b]); }
      void add(size_t a, size_t b, size_t c)
      {
        // any rotation of the vertex order; orientation as delaunator emits it (clockwise: cross(b-a, c-b) < 0), non-degenerate
        const unsigned rot = sym_u32("rotation"); sym_assume(rot < 3);
        size_t v[3] = {a, b, c};
        if (cross(coords, a, b, c) > 0) { v[1] = c; v[2] = b; }
        sym_assume(cross(coords, v[0], v[1], v[2]) < 0);
        for (unsigned i = 0; i < 3; ++i) triangles.push_back(v[(i + rot) % 3]);
      }
      Delaunator(std::vector<double> const &in_coords) : coords(in_coords)
      {
        const size_t n = coords.size() / 2;
        if (n == 3) add(0, 1, 2);
        else if (n == 4)
          {
            // four points in convex position (assumed by the harness): either diagonal is a valid triangulation
            if (sym_bool("diagonal 0-2")) { add(0, 1, 2); add(0, 2, 3); }
            else { add(0, 1, 3); add(1, 2, 3); }
          }
        else throw std::runtime_error("stub triangulator: 3 or 4 points");
      }
  };
}
#include "world_builder/objects/surface.cc"
#include "world_builder/utilities.h"
using namespace H;

// same-point detection used when user values are merged with the polygon corners
extern "C" void h_c11_same(void)
{
  const double a = sym_f64("a"), b = sym_f64("b");
  sym_assume(a == a && b == b && std::fabs(a) < 1e300 && std::fabs(b) < 1e300);
  sym_assert(Utilities::approx(a, a), "a point is recognised as the same point as itself (also with a zero coordinate)");
  if (Utilities::approx(a, b)) sym_assert(std::fabs(a - b) <= 1.0e-11 * std::fabs(std::min(a, b)), "points recognised as the same are within 1e4 ulp-scale relative distance");
  sym_reach("end");
}

static bool inside_tri(const double *x, const double *y, size_t a, size_t b, size_t c, double px, double py, double margin)
{
  // barycentric test in exact arithmetic; margin>0 asks for "clearly outside" (some coordinate below -margin*|area|)
  const double area = (x[b] - x[a]) * (y[c] - y[a]) - (x[c] - x[a]) * (y[b] - y[a]);
  const double s = ((px - x[a]) * (y[c] - y[a]) - (x[c] - x[a]) * (py - y[a])), t = ((x[b] - x[a]) * (py - y[a]) - (px - x[a]) * (y[b] - y[a]));
  const double sg = area > 0 ? 1.0 : -1.0;
  (void) margin;
  return sg * s >= 0 && sg * t >= 0 && sg * (s + t) <= sg * area;
}

// n = 3 or 4 points on the 3x3 lattice {0,1,2}^2 scaled by 1000 (code = base-9 digits, one per point; enumerated by the runner:
// every non-degenerate triangle / convex quadrilateral of the lattice); nodal values and query point are symbolic.
// kind 0: nodal values are honoured, value within [min,max]; kind 1: affine data => affine interpolant
extern "C" void h_c11_surface(unsigned long n, unsigned long kind, unsigned long code, unsigned long small)
{
  // small = 1: the same shapes with a lattice spacing of 1/1024 (triangle areas around 1e-6, e.g. closely spaced points given in radians): tolerances that
  // are meant to be relative to the triangle size must not blow up there
  const double spacing = small ? 1.0 / 1024.0 : 1000.0, thr = small ? 1e-7 : 1.0;
  double x[4], y[4], v[4];
  std::pair<std::vector<double>, std::vector<double>> vp;
  for (unsigned i = 0; i < n; ++i)
    {
      const unsigned long d = code % 9; code /= 9;
      x[i] = spacing * double(d % 3); y[i] = spacing * double(d / 3); v[i] = sym_f64("v");
      vp.first.push_back(v[i]); vp.second.push_back(x[i]); vp.second.push_back(y[i]);
    }
  auto cr = [&](unsigned a, unsigned b, unsigned c) { return (x[b] - x[a]) * (y[c] - y[b]) - (y[b] - y[a]) * (x[c] - x[b]); };
  if (n == 3) sym_assume(cr(0, 1, 2) > thr || cr(0, 1, 2) < -thr);                                 // non-degenerate (area well above the tolerance band)
  else sym_assume((cr(0,1,2) > thr && cr(1,2,3) > thr && cr(2,3,0) > thr && cr(3,0,1) > thr) || (cr(0,1,2) < -thr && cr(1,2,3) < -thr && cr(2,3,0) < -thr && cr(3,0,1) < -thr));   // convex position, listed around the hull
  double alpha = 0, beta = 0, gamma = 0;
  if (kind == 1)
    {
      alpha = sym_f64("alpha"); beta = sym_f64("beta"); gamma = sym_f64("gamma");
      for (unsigned i = 0; i < n; ++i) sym_assume(v[i] == alpha + beta * x[i] + gamma * y[i]);
    }
  const Objects::Surface surface(vp);
  double lo = v[0], hi = v[0];
  for (unsigned i = 1; i < n; ++i) { if (v[i] < lo) lo = v[i]; if (v[i] > hi) hi = v[i]; }
  sym_assert(!surface.constant_value && sym_eq(surface.minimum, lo) && sym_eq(surface.maximum, hi), "minimum and maximum are the extrema of the nodal values");
  // query point inside the hull (inside the triangle 0-1-2 or, for four points, 0-2-3 as well: together they cover a convex quadrilateral)
  const double px = sym_f64("px"), py = sym_f64("py");
  bool in_hull = inside_tri(x, y, 0, 1, 2, px, py, 0);
  if (n == 4) in_hull = in_hull || inside_tri(x, y, 0, 2, 3, px, py, 0);
  sym_assume(in_hull);
  bool threw = false; double value = 0;
  try { value = surface.local_value(Point<2>(px, py, cartesian)).interpolated_value; }
  catch (...) { threw = true; }
  sym_assert(!threw, "a point inside the hull is found in some triangle");
  if (threw) return;
  sym_out("value", value);
  if (kind == 1) sym_assert(sym_eq(value, alpha + beta * px + gamma * py), "affine nodal data are reproduced exactly, whatever triangulation is chosen");
  else
    {
      for (unsigned i = 0; i < n; ++i) if (px == x[i] && py == y[i]) sym_assert(sym_eq(value, v[i]), "at a listed point the listed value is used");
      // the code accepts points up to 1e4*eps (absolute, in area units) outside a triangle: the bound holds up to the corresponding extrapolation
      // (the tolerance on s and t is absolute, 1e4*eps in area units: relative to a triangle of the small lattice that is 2.3e-6, hence the wider slack there)
      const double slack = (small ? 1e-5 : 1e-9) * (hi - lo);
      sym_assert(value >= lo - slack && value <= hi + slack, "the interpolated value lies between the smallest and largest nodal value");
    }
  sym_reach("end");
}
