// C16: the C and C++ wrappers are transparent.  World's constructor, destructor and query methods are replaced by
// recording stubs (__wrap_<mangled name>: the executor redirects calls, the native twin links with -Wl,--wrap).
#include "sym.h"
#include <random>
#include "world_builder/world.h"
#include "world_builder/wrapper_c.h"
#include "world_builder/wrapper_cpp.h"
#include <cstring>
#include <cstdlib>
using namespace WorldBuilder;
typedef std::array<unsigned int,3> Prop;

namespace
{
  struct Seen
  {
    const void *self; unsigned calls;
    char file[8]; size_t file_len; bool has_dir; char dir[8]; size_t dir_len; unsigned long seed;
    double pt[3]; double depth; unsigned n_props; unsigned props[4][3]; unsigned comp; int dims;
    const void *destroyed; unsigned n_ret; unsigned announced;
  } seen;
  void record_props(const std::vector<Prop> &p)
  {
    seen.n_props = static_cast<unsigned>(p.size());
    for (unsigned i = 0; i < p.size() && i < 4; ++i) for (unsigned j = 0; j < 3; ++j) seen.props[i][j] = p[i][j];
  }
  unsigned width_of(const unsigned *p) { return p[0] == 3 ? p[2]*10 : (p[0] == 5 ? 3 : 1); }
}

extern "C" {
  // World::World(std::string, bool, const std::string &, unsigned long, bool)
  void __wrap__ZN12WorldBuilder5WorldC1ENSt7__cxx1112basic_stringIcSt11char_traitsIcESaIcEEEbRKS6_mb
  (World *self, std::string *filename, bool has_output_dir, const std::string *output_dir, unsigned long seed, bool)
  {
    seen.self = self; ++seen.calls;
    seen.file_len = filename->size(); for (size_t i = 0; i < filename->size() && i < 8; ++i) seen.file[i] = (*filename)[i];
    seen.has_dir = has_output_dir;
    seen.dir_len = output_dir->size(); for (size_t i = 0; i < output_dir->size() && i < 8; ++i) seen.dir[i] = (*output_dir)[i];
    seen.seed = seed;
    // from here on the constructed world is pre-existing memory: whatever the wrapper stores into it afterwards is recorded
    sym_freeze(); sym_allow(&seen);
  }
  void __wrap__ZN12WorldBuilder5WorldD1Ev(World *self) { seen.destroyed = self; }
  // accessor a wrapper could use to tamper with the constructed world (real semantics: a reference to the member)
  std::mt19937 *__wrap__ZN12WorldBuilder5World24get_random_number_engineEv(World *self) { return &self->random_number_engine; }
  unsigned __wrap__ZNK12WorldBuilder5World22properties_output_sizeERKSt6vectorISt5arrayIjLm3EESaIS3_EE(const World *self, const std::vector<Prop> *p)
  { seen.self = self; record_props(*p); seen.announced = sym_u32("announced"); return seen.announced; }
}
// std::vector<double> World::properties(array<double,3> const&, double, vector<Prop> const&) const  (returned through sret)
extern "C" std::vector<double> __wrap__ZNK12WorldBuilder5World10propertiesERKSt5arrayIdLm3EEdRKSt6vectorIS1_IjLm3EESaIS6_EE
(const World *self, const std::array<double,3> *pt, double depth, const std::vector<Prop> *p)
{
  seen.self = self; seen.dims = 3; seen.pt[0] = (*pt)[0]; seen.pt[1] = (*pt)[1]; seen.pt[2] = (*pt)[2]; seen.depth = depth; record_props(*p);
  std::vector<double> r(seen.n_ret);
  for (unsigned i = 0; i < seen.n_ret; ++i) r[i] = sym_ufi(3, i, 0, 0, 0);
  return r;
}
extern "C" std::vector<double> __wrap__ZNK12WorldBuilder5World10propertiesERKSt5arrayIdLm2EEdRKSt6vectorIS1_IjLm3EESaIS6_EE
(const World *self, const std::array<double,2> *pt, double depth, const std::vector<Prop> *p)
{
  seen.self = self; seen.dims = 2; seen.pt[0] = (*pt)[0]; seen.pt[1] = (*pt)[1]; seen.depth = depth; record_props(*p);
  std::vector<double> r(seen.n_ret);
  for (unsigned i = 0; i < seen.n_ret; ++i) r[i] = sym_ufi(2, i, 0, 0, 0);
  return r;
}
extern "C" {
  double __wrap__ZNK12WorldBuilder5World11temperatureERKSt5arrayIdLm3EEd(const World *self, const std::array<double,3> *pt, double depth)
  { seen.self = self; seen.dims = 3; seen.pt[0] = (*pt)[0]; seen.pt[1] = (*pt)[1]; seen.pt[2] = (*pt)[2]; seen.depth = depth; return sym_ufi(13, 0, 0, 0, 0); }
  double __wrap__ZNK12WorldBuilder5World11temperatureERKSt5arrayIdLm2EEd(const World *self, const std::array<double,2> *pt, double depth)
  { seen.self = self; seen.dims = 2; seen.pt[0] = (*pt)[0]; seen.pt[1] = (*pt)[1]; seen.depth = depth; return sym_ufi(12, 0, 0, 0, 0); }
  double __wrap__ZNK12WorldBuilder5World11compositionERKSt5arrayIdLm3EEdj(const World *self, const std::array<double,3> *pt, double depth, unsigned c)
  { seen.self = self; seen.dims = 3; seen.pt[0] = (*pt)[0]; seen.pt[1] = (*pt)[1]; seen.pt[2] = (*pt)[2]; seen.depth = depth; seen.comp = c; return sym_ufi(23, c, 0, 0, 0); }
  double __wrap__ZNK12WorldBuilder5World11compositionERKSt5arrayIdLm2EEdj(const World *self, const std::array<double,2> *pt, double depth, unsigned c)
  { seen.self = self; seen.dims = 2; seen.pt[0] = (*pt)[0]; seen.pt[1] = (*pt)[1]; seen.depth = depth; seen.comp = c; return sym_ufi(22, c, 0, 0, 0); }
}

// create_world / release_world: every argument reaches the constructor unchanged
// file_len: 0..3 characters; dir_mode: 0 = null pointer, 1.. = string of dir_mode-1 characters; flag_mode: 0 null, 1 non-null
extern "C" void h_c16_create(unsigned long file_len, unsigned long dir_mode, unsigned long flag_mode)
{
  char file[8], dir[8];
  for (unsigned i = 0; i < file_len; ++i) { file[i] = static_cast<char>(sym_u8("fc")); sym_assume(file[i] != 0); }
  file[file_len] = 0;
  const unsigned long dir_len = dir_mode ? dir_mode - 1 : 0;
  for (unsigned i = 0; i < dir_len; ++i) { dir[i] = static_cast<char>(sym_u8("dc")); sym_assume(dir[i] != 0); }
  dir[dir_len] = 0;
  const bool flag = sym_bool("has_dir");
  const unsigned long seed = sym_u64("seed");
  void *world = nullptr;
  create_world(&world, file, flag_mode ? &flag : nullptr, dir_mode ? dir : nullptr, seed);
  sym_assert(seen.calls == 1 && world != nullptr && world == seen.self, "create_world returns the constructed world");
  sym_assert(seen.file_len == file_len, "file name length reaches the constructor");
  for (unsigned i = 0; i < file_len && i < seen.file_len; ++i) sym_assert(seen.file[i] == file[i], "file name characters reach the constructor");
  sym_assert(seen.has_dir == (flag_mode ? flag : false), "output-directory flag reaches the constructor (false when the pointer is null)");
  sym_assert(seen.dir_len == dir_len, "full output directory reaches the constructor");
  for (unsigned i = 0; i < dir_len && i < seen.dir_len; ++i) sym_assert(seen.dir[i] == dir[i], "output directory characters reach the constructor");
  sym_assert(seen.seed == seed, "seed reaches the constructor");
  sym_assert(sym_writes() == 0, "create_world does nothing to the world after constructing it (the file's own settings, e.g. its seed entry, stay in force)");
  release_world(world);
  sym_assert(seen.destroyed == world, "release_world destroys exactly that world");
  sym_reach("end");
}

// properties_2d / properties_3d / properties_output_size
extern "C" void h_c16_properties(unsigned long n_props, unsigned long n_ret, unsigned long dims)
{
  alignas(16) static unsigned char obj[16]; void *world = obj;
  unsigned props[4][3];
  for (unsigned i = 0; i < n_props; ++i) for (unsigned j = 0; j < 3; ++j) props[i][j] = sym_u32("p");
  const double x = sym_f64("x"), y = sym_f64("y"), z = sym_f64("z"), depth = sym_f64("depth");
  seen.n_ret = static_cast<unsigned>(n_ret);
  double values[12]; const unsigned guard = static_cast<unsigned>(n_ret);
  for (unsigned i = 0; i < 12; ++i) values[i] = sym_f64("v");
  double before[12]; for (unsigned i = 0; i < 12; ++i) before[i] = values[i];
  if (dims == 2) properties_2d(world, x, z, depth, props, static_cast<unsigned>(n_props), values);
  else           properties_3d(world, x, y, z, depth, props, static_cast<unsigned>(n_props), values);
  sym_assert(seen.self == world && seen.dims == static_cast<int>(dims), "the query goes to the given world through the right entry point");
  sym_assert(sym_same(seen.pt[0], x) && sym_same(seen.pt[dims-1], z) && (dims == 2 || sym_same(seen.pt[1], y)) && sym_same(seen.depth, depth), "point and depth are forwarded unchanged");
  sym_assert(seen.n_props == n_props, "the property list has the given length");
  for (unsigned i = 0; i < n_props && i < seen.n_props; ++i) for (unsigned j = 0; j < 3; ++j) sym_assert(seen.props[i][j] == props[i][j], "property triples are forwarded in order");
  for (unsigned i = 0; i < 12; ++i)
    {
      if (i < guard) sym_assert(sym_same(values[i], sym_ufi(static_cast<unsigned>(dims), i, 0, 0, 0)), "returned values are copied in order");
      else sym_assert(sym_same(values[i], before[i]), "nothing is written past the returned values");
    }
  const unsigned announced = properties_output_size(world, props, static_cast<unsigned>(n_props));
  sym_assert(seen.n_props == n_props && announced == seen.announced, "properties_output_size forwards the list and returns the world's answer");
  for (unsigned i = 0; i < n_props && i < seen.n_props; ++i) for (unsigned j = 0; j < 3; ++j) sym_assert(seen.props[i][j] == props[i][j], "properties_output_size forwards the triples");
  sym_reach("end");
}

// a query with a long list followed by one with a shorter list through the same entry point (history independence of the wrapper)
extern "C" void h_c16_sequence(unsigned long n1, unsigned long n2, unsigned long dims)
{
  alignas(16) static unsigned char obj[16]; void *world = obj;
  unsigned props[4][3];
  for (unsigned i = 0; i < 4; ++i) for (unsigned j = 0; j < 3; ++j) props[i][j] = sym_u32("p");
  double values[12];
  seen.n_ret = 1;
  if (dims == 2) properties_2d(world, 0., 0., 0., props, static_cast<unsigned>(n1), values); else properties_3d(world, 0., 0., 0., 0., props, static_cast<unsigned>(n1), values);
  sym_assert(seen.n_props == n1, "first request has its own length");
  (void) properties_output_size(world, props, static_cast<unsigned>(n1));
  if (dims == 2) properties_2d(world, 0., 0., 0., props, static_cast<unsigned>(n2), values); else properties_3d(world, 0., 0., 0., 0., props, static_cast<unsigned>(n2), values);
  sym_assert(seen.n_props == n2, "second request has its own length whatever came before");
  (void) properties_output_size(world, props, static_cast<unsigned>(n2));
  sym_assert(seen.n_props == n2, "second size request has its own length whatever came before");
  sym_reach("end");
}

// temperature_2d/3d, composition_2d/3d of the C interface and of the C++ wrapper class
extern "C" void h_c16_scalar(void)
{
  alignas(16) static unsigned char obj[16]; void *world = obj;
  const double x = sym_f64("x"), y = sym_f64("y"), z = sym_f64("z"), depth = sym_f64("depth"); const unsigned c = sym_u32("c");
  double out = sym_f64("out");
  temperature_3d(world, x, y, z, depth, &out);
  sym_assert(seen.self == world && sym_same(out, sym_ufi(13, 0, 0, 0, 0)) && sym_same(seen.pt[0], x) && sym_same(seen.pt[1], y) && sym_same(seen.pt[2], z) && sym_same(seen.depth, depth), "temperature_3d is transparent");
  temperature_2d(world, x, z, depth, &out);
  sym_assert(sym_same(out, sym_ufi(12, 0, 0, 0, 0)) && sym_same(seen.pt[0], x) && sym_same(seen.pt[1], z) && sym_same(seen.depth, depth), "temperature_2d is transparent");
  composition_3d(world, x, y, z, depth, c, &out);
  sym_assert(sym_same(out, sym_ufi(23, c, 0, 0, 0)) && seen.comp == c && sym_same(seen.pt[0], x) && sym_same(seen.pt[1], y) && sym_same(seen.pt[2], z) && sym_same(seen.depth, depth), "composition_3d is transparent");
  composition_2d(world, x, z, depth, c, &out);
  sym_assert(sym_same(out, sym_ufi(22, c, 0, 0, 0)) && seen.comp == c && sym_same(seen.pt[0], x) && sym_same(seen.pt[1], z) && sym_same(seen.depth, depth), "composition_2d is transparent");
  // C++ wrapper class (raw storage: its constructor is exercised in h_c16_cpp_create)
  alignas(wrapper_cpp::WorldBuilderWrapper) static unsigned char wbuf[sizeof(wrapper_cpp::WorldBuilderWrapper)];
  auto *wr = reinterpret_cast<wrapper_cpp::WorldBuilderWrapper *>(wbuf); wr->ptr_ptr_world = world;
  sym_assert(sym_same(wr->temperature_3d(x, y, z, depth), sym_ufi(13, 0, 0, 0, 0)) && sym_same(seen.pt[1], y) && sym_same(seen.depth, depth) && seen.dims == 3, "C++ temperature_3d is transparent");
  sym_assert(sym_same(wr->temperature_2d(x, z, depth), sym_ufi(12, 0, 0, 0, 0)) && sym_same(seen.pt[1], z) && sym_same(seen.pt[0], x) && seen.dims == 2, "C++ temperature_2d is transparent");
  sym_assert(sym_same(wr->temperature_3d(x, y, z, depth, 9.81), sym_ufi(13, 0, 0, 0, 0)) && sym_same(seen.pt[2], z) && seen.dims == 3, "C++ temperature_3d (gravity overload) is transparent");
  sym_assert(sym_same(wr->temperature_2d(x, z, depth, 9.81), sym_ufi(12, 0, 0, 0, 0)) && sym_same(seen.depth, depth) && seen.dims == 2, "C++ temperature_2d (gravity overload) is transparent");
  sym_assert(sym_same(wr->composition_3d(x, y, z, depth, c), sym_ufi(23, c, 0, 0, 0)) && seen.comp == c && sym_same(seen.pt[2], z) && sym_same(seen.pt[0], x), "C++ composition_3d is transparent");
  sym_assert(sym_same(wr->composition_2d(x, z, depth, c), sym_ufi(22, c, 0, 0, 0)) && seen.comp == c && sym_same(seen.pt[1], z) && sym_same(seen.depth, depth), "C++ composition_2d is transparent");
  sym_reach("end");
}

// C++ wrapper constructor / destructor
extern "C" void h_c16_cpp_create(unsigned long file_len, unsigned long dir_len)
{
  std::string file, dir;
  for (unsigned i = 0; i < file_len; ++i) { const char c = static_cast<char>(sym_u8("fc")); sym_assume(c != 0); file.push_back(c); }
  for (unsigned i = 0; i < dir_len; ++i) { const char c = static_cast<char>(sym_u8("dc")); sym_assume(c != 0); dir.push_back(c); }
  const bool flag = sym_bool("has_dir"); const unsigned long seed = sym_u64("seed");
  {
    wrapper_cpp::WorldBuilderWrapper wr(file, flag, dir, seed);
    sym_assert(seen.calls == 1 && wr.ptr_ptr_world == seen.self && wr.ptr_ptr_world != nullptr, "C++ wrapper holds the constructed world");
    sym_assert(seen.file_len == file_len && seen.dir_len == dir_len && seen.has_dir == flag && seen.seed == seed, "C++ wrapper forwards lengths, flag and seed");
    for (unsigned i = 0; i < file_len && i < seen.file_len; ++i) sym_assert(seen.file[i] == file[i], "C++ wrapper forwards the file name");
    for (unsigned i = 0; i < dir_len && i < seen.dir_len; ++i) sym_assert(seen.dir[i] == dir[i], "C++ wrapper forwards the output directory");
  }
  sym_assert(seen.destroyed == seen.self, "C++ wrapper destructor destroys its world");
  sym_reach("end");
}
