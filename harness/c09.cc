// C09: the 2D cross-section interface equals the 3D interface along the section.
// The 3D overload of World::properties is replaced by a recording stub returning arbitrary (uninterpreted) values.
#include "common.h"
#include <cmath>
using namespace H;
namespace
{
  struct Seen { const World *self; double pt[3]; double depth; unsigned n; unsigned props[4][3]; unsigned calls; } seen;
}
extern "C" std::vector<double> __wrap__ZNK12WorldBuilder5World10propertiesERKSt5arrayIdLm3EEdRKSt6vectorIS1_IjLm3EESaIS6_EE
(const World *self, const std::array<double,3> *pt, double depth, const std::vector<Prop> *p)
{
  seen.self = self; ++seen.calls; seen.pt[0] = (*pt)[0]; seen.pt[1] = (*pt)[1]; seen.pt[2] = (*pt)[2]; seen.depth = depth;
  seen.n = static_cast<unsigned>(p->size());
  unsigned total = 0;
  for (unsigned i = 0; i < p->size() && i < 4; ++i) { for (unsigned j = 0; j < 3; ++j) seen.props[i][j] = (*p)[i][j]; total += width_of((*p)[i]); }
  std::vector<double> r(total);
  for (unsigned i = 0; i < total; ++i) r[i] = sym_ufi(5, i, 0, 0, 0);
  return r;
}

extern "C" void h_c09_map(unsigned long spherical_cs, unsigned long L, unsigned long kind0)
{
  World *w = make_world(0, spherical_cs != 0);
  make_2d(w);
  const std::vector<Prop> props = make_request(static_cast<unsigned>(L), 2);
  if (kind0) sym_assume(props[0][0] == kind0);        // case split over the first entry's kind
  const double depth = sym_f64("depth");
  const double x = sym_f64("x"), z = sym_f64("z");
  const std::array<double,2> p2 = {{x, z}};
  const std::vector<double> r = w->properties(p2, depth, props);
  const double o0 = w->cross_section[0][0], o1 = w->cross_section[0][1], d0 = w->surface_coord_conversions[0], d1 = w->surface_coord_conversions[1];
  sym_assert(seen.calls == 1 && seen.self == w, "one 3D query on the same world");
  sym_assert(sym_eq(seen.depth, depth), "depth forwarded unchanged");
  sym_assert(seen.n == props.size(), "property list forwarded with its length");
  for (unsigned i = 0; i < props.size() && i < seen.n; ++i) for (unsigned j = 0; j < 3; ++j) sym_assert(seen.props[i][j] == props[i][j], "property triples forwarded in order");
  if (!spherical_cs)
    {
      sym_assert(sym_eq(seen.pt[0], o0 + x*d0) && sym_eq(seen.pt[1], o1 + x*d1) && sym_eq(seen.pt[2], z), "Cartesian: distance x along the section at height z");
    }
  else
    {
      const double theta = std::atan2(z, x), radius = std::sqrt(x*x + z*z);
      const std::array<double,3> natural = {{radius, o0 + theta*d0, o1 + theta*d1}};
      const std::array<double,3> expect = w->parameters.coordinate_system->natural_to_cartesian_coordinates(natural);
      sym_assert(sym_eq(seen.pt[0], expect[0]) && sym_eq(seen.pt[1], expect[1]) && sym_eq(seen.pt[2], expect[2]), "spherical: angle atan2(z,x) along the section at radius sqrt(x^2+z^2)");
    }
  unsigned off = 0;
  for (unsigned i = 0; i < props.size(); ++i)
    {
      const unsigned wd = width_of(props[i]);
      sym_assert(off + wd <= r.size(), "2D answer has the announced length");
      if (off + wd > r.size()) break;
      if (props[i][0] == 5)
        {
          if (!spherical_cs)
            {
              sym_assert(sym_eq(r[off], d0*sym_ufi(5, off, 0, 0, 0) + d1*sym_ufi(5, off+1, 0, 0, 0)), "velocity: in-section horizontal component");
              sym_assert(sym_eq(r[off+1], sym_ufi(5, off+2, 0, 0, 0)), "velocity: vertical component");
              sym_assert(r[off+2] == 0.0, "velocity: third entry is zero");
            }
        }
      else
        for (unsigned s = 0; s < wd; ++s) sym_assert(sym_eq(r[off+s], sym_ufi(5, off+s, 0, 0, 0)), "non-velocity entries are the 3D answer unchanged");
      off += wd;
    }
  sym_assert(off == r.size(), "2D answer has no extra entries");
  sym_reach("end");
}

// a world without cross section refuses 2D queries
extern "C" void h_c09_refuse(unsigned long which)
{
  World *w = make_world(0);
  w->dim = 3;
  new (&w->cross_section) std::vector<Point<2>>();
  const std::array<double,2> p2 = {{sym_f64("x"), sym_f64("z")}};
  bool threw = false;
  const double depth = sym_f64("depth");
  try
    {
      // every 2D entry point of the library interface (the wrappers forward to these)
      switch (which)
        {
          case 0: (void) w->properties(p2, depth, {{{1,0,0}}}); break;
          case 1: (void) w->temperature(p2, depth); break;
          case 2: (void) w->temperature(p2, depth, sym_f64("gravity")); break;
          case 3: (void) w->composition(p2, depth, sym_u32("composition")); break;
          default: (void) w->grains(p2, depth, sym_u32("composition"), 1); break;
        }
    }
  catch (...) { threw = true; }
  sym_assert(threw && seen.calls == 0, "2D query without cross section throws and never reaches the 3D query");
  sym_reach("end");
}
