// C11.merge / C04.merge: Parameters::get(name, additional points) - the merge of the polygon corners (at the documented default) with the
// values the user lists at points.  The REAL function runs against a rapidjson DOM that the harness builds programmatically with symbolic
// leaf numbers (file parsing, schema validation and text conversion stay outside).  rapidjson is compiled with its 48-bit pointer packing
// switched off for this run (the executor's pointers are object/offset pairs); WorldBuilder's own code is unchanged.
#define RAPIDJSON_48BITPOINTER_OPTIMIZATION 0
#include "common.h"
#include "world_builder/parameters.h"
#include "world_builder/utilities.h"
#include "rapidjson/document.h"
using namespace H;
using namespace rapidjson;
namespace
{
  // entry kinds: 'P' no points; 'a','b','c' one point equal to corner 0/1/2; 'F','G' one fresh point (F and G are different points); 'D' two fresh points in one entry
  const char *LAYOUTS[] = {"", "F", "a", "P", "Fb", "aP", "PF", "FG", "aa", "FP", "PbF", "D", "FF", "c"};
}
extern "C" void h_c11_merge(unsigned long layout, unsigned long sph)
{
  World *w = make_world(0, sph != 0);
  Parameters &prm = w->parameters;
  new (&prm.path) std::vector<std::string>();
  new (&prm.parameters) Document(); new (&prm.declarations) Document();
  const double D_scalar = sym_f64("default (number form)"), D_array = sym_f64("default (values at points form)");
  {
    Document &d = prm.declarations; d.SetObject(); auto &a = d.GetAllocator();
    Value one0(kObjectType); one0.AddMember("default value", Value(D_scalar), a);
    Value any0(kObjectType); any0.AddMember("default value", Value(D_array), a);
    Value anyOf(kArrayType); anyOf.PushBack(any0, a);
    Value inner(kObjectType); inner.AddMember("anyOf", anyOf, a);
    Value items(kObjectType); items.AddMember("items", inner, a);
    Value one1(kObjectType); one1.AddMember("items", items, a);
    Value oneOf(kArrayType); oneOf.PushBack(one0, a); oneOf.PushBack(one1, a);
    Value entry(kObjectType); entry.AddMember("oneOf", oneOf, a);
    Value props(kObjectType); props.AddMember("min depth", entry, a);
    d.AddMember("properties", props, a);
  }
  // polygon corners = additional points (natural coordinates: radians in spherical worlds): three concrete, well separated corners; new points are symbolic
  // inside boxes that are disjoint from the corners and from each other, so that the same-point test (approx) has a definite answer without case splits
  std::vector<Point<2>> corners; const double cx[3] = {1., 7., 4.}, cy[3] = {2., 3., 9.};
  for (unsigned k = 0; k < 3; ++k) corners.emplace_back(cx[k], cy[k], sph ? spherical : cartesian);
  unsigned fresh_index = 0;
  const double scale = sph ? Consts::PI / 180.0 : 1.0;
  // expected nodal table, built from the statement: corners at the default, listed points at their values (a listed corner replaces the corner's value,
  // an entry without points sets the corners), new points appended in order
  double ev[8], ex[8], ey[8]; unsigned en = 3;
  for (unsigned k = 0; k < 3; ++k) { ev[k] = D_array; ex[k] = cx[k]; ey[k] = cy[k]; }
  const char *lay = LAYOUTS[layout];
  bool scalar_form = false; double scalar_value = 0;
  {
    Document &d = prm.parameters; d.SetObject(); auto &a = d.GetAllocator();
    if (lay[0] != 0)
      {
        Value arr(kArrayType);
        double fx = 0, fy = 0;
        for (unsigned e = 0; lay[e]; ++e)
          {
            const double v = sym_f64("listed value");
            Value entry(kArrayType); entry.PushBack(Value(v), a);
            const char kd = lay[e];
            if (kd == 'P') { for (unsigned k = 0; k < 3; ++k) ev[k] = v; }
            else
              {
                Value pts(kArrayType);
                const unsigned npts = kd == 'D' ? 2 : 1;
                for (unsigned q = 0; q < npts; ++q)
                  {
                    double px, py;               // as written in the file (degrees in spherical worlds)
                    if (kd >= 'a' && kd <= 'c') { const unsigned k = unsigned(kd - 'a'); px = cx[k] / scale; py = cy[k] / scale; ev[k] = v; }
                    else
                      {
                        const bool again = (kd == 'F' && e > 0 && lay[e-1] == 'F');          // "FF": the same fresh point listed twice, the later value wins
                        if (again) { px = fx; py = fy; ev[en-1] = v; }
                        else
                          {
                            px = sym_f64("listed x"); py = sym_f64("listed y");
                            const double lo = (10. + 20. * fresh_index) / scale, hi = (20. + 20. * fresh_index) / scale; ++fresh_index;
                            sym_assume(px >= lo && px <= hi && py >= lo && py <= hi);
                            ev[en] = v; ex[en] = px * scale; ey[en] = py * scale; ++en; fx = px; fy = py;
                          }
                      }
                    Value pt(kArrayType); pt.PushBack(Value(px), a); pt.PushBack(Value(py), a); pts.PushBack(pt, a);
                  }
                entry.PushBack(pts, a);
              }
            arr.PushBack(entry, a);
          }
        d.AddMember("min depth", arr, a);
      }
    else if (sph == 2)          // sph == 2 with the empty layout: the plain-number form
      { scalar_form = true; scalar_value = sym_f64("plain value"); d.AddMember("min depth", Value(scalar_value), a); }
  }
  const std::pair<std::vector<double>,std::vector<double>> r = prm.get("min depth", corners);
  if (lay[0] == 0)
    {
      sym_assert(r.first.size() == 1 && r.second.empty() && sym_eq(r.first[0], scalar_form ? scalar_value : D_scalar), "without a table the single value (or the documented default) is used everywhere");
      sym_reach("end"); return;
    }
  if (lay[0] == 'P' && lay[1] == 0)
    {
      sym_assert(r.first.size() == 1 && r.second.empty(), "a single value without points is used everywhere");
      sym_reach("end"); return;
    }
  sym_assert(r.first.size() == en && r.second.size() == 2 * en, "the nodal table holds the polygon corners and every new listed point once");
  for (unsigned k = 0; k < en && k < r.first.size(); ++k)
    {
      sym_assert(sym_eq(r.second[2*k], ex[k]) && sym_eq(r.second[2*k+1], ey[k]), "nodes are the corners in order, then the new points in the order they are listed (degrees converted in spherical worlds)");
      sym_assert(sym_eq(r.first[k], ev[k]), k < 3 ? "a corner carries the documented default unless it is listed (or an entry without points sets the corners); the last listing wins"
                                                    : "a listed point carries its listed value (later entries without points do not change it)");
    }
  sym_reach("end");
}
