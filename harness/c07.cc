// C07.box: bounding boxes never exclude a point inside their closed extent.
#include "common.h"
#include "world_builder/bounding_box.h"
using namespace H;
static void box_case(const bool spherical_cs, const bool default_tolerance)
{
  const CoordinateSystem cs = spherical_cs ? spherical : cartesian;
  const double lx = sym_f64("lx"), ly = sym_f64("ly"), hx = sym_f64("hx"), hy = sym_f64("hy"), px = sym_f64("px"), py = sym_f64("py");
  sym_assume(lx <= hx && ly <= hy && lx > -1e300 && ly > -1e300 && hx < 1e300 && hy < 1e300);
  BoundingBox<2> box(std::make_pair(Point<2>(lx, ly, cs), Point<2>(hx, hy, cs)));
  sym_assume(px >= lx && px <= hx && py >= ly && py <= hy);
  bool inside;
  if (default_tolerance) inside = box.point_inside(Point<2>(px, py, cs));
  else { const double tol = sym_f64("tolerance"); sym_assume(tol >= 0); inside = box.point_inside(Point<2>(px, py, cs), tol); }
  if (default_tolerance) sym_assert(inside, "a point within the closed box is inside (bit precise, default tolerance)");
  else sym_assert(inside, "a point within the closed box is inside");
  sym_reach("end");
}
extern "C" void h_c07_box(unsigned long spherical_cs) { box_case(spherical_cs != 0, false); }
extern "C" void h_c07_box_fp(void) { box_case(false, true); }
extern "C" void h_c07_extend(void)
{
  const double lx = sym_f64("lx"), ly = sym_f64("ly"), hx = sym_f64("hx"), hy = sym_f64("hy"), a = sym_f64("amount");
  sym_assume(lx <= hx && ly <= hy);
  BoundingBox<2> box(std::make_pair(Point<2>(lx, ly, cartesian), Point<2>(hx, hy, cartesian)));
  box.extend(a);
  const auto &b = box.get_boundary_points();
  sym_assert(sym_eq(b.first[0], lx - a) && sym_eq(b.first[1], ly - a) && sym_eq(b.second[0], hx + a) && sym_eq(b.second[1], hy + a), "extend moves both corners outwards by the amount");
  sym_reach("end");
}
// spherical wrapper: a point is accepted iff it or its 360-degree longitude alias (+2pi if negative, else -2pi) is within the box
extern "C" void h_c07_alias(void)
{
  const double lx = sym_f64("lx"), ly = sym_f64("ly"), hx = sym_f64("hx"), hy = sym_f64("hy"), x = sym_f64("lon"), y = sym_f64("lat");
  BoundingBox<2> box(std::make_pair(Point<2>(lx, ly, spherical), Point<2>(hx, hy, spherical)));
  const double tol = std::numeric_limits<double>::epsilon();
  const bool got = box.point_inside(Point<2>(x, y, spherical));
  const double other = x < 0 ? x + 2.0 * Consts::PI : x - 2.0 * Consts::PI;
  const bool want = box.point_inside_implementation(Point<2>(x, y, spherical), tol) || box.point_inside_implementation(Point<2>(other, y, spherical), tol);
  sym_assert(got == want, "spherical box test is the disjunction over the two longitude aliases");
  sym_reach("end");
}
