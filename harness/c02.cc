// C02 (frame / operations / fold) and C04.guard for the area features.
#include "frame_area.h"
#include "world_builder/features/continental_plate.h"
#include "world_builder/features/oceanic_plate.h"
#include "world_builder/features/mantle_layer.h"
#include "world_builder/features/feature_utilities.h"
#include "world_builder/features/continental_plate_models/temperature/interface.h"
#include "world_builder/features/continental_plate_models/composition/interface.h"
#include "world_builder/features/continental_plate_models/grains/interface.h"
#include "world_builder/features/continental_plate_models/velocity/interface.h"
#include "world_builder/features/oceanic_plate_models/temperature/interface.h"
#include "world_builder/features/oceanic_plate_models/composition/interface.h"
#include "world_builder/features/oceanic_plate_models/grains/interface.h"
#include "world_builder/features/oceanic_plate_models/velocity/interface.h"
#include "world_builder/features/mantle_layer_models/temperature/interface.h"
#include "world_builder/features/mantle_layer_models/composition/interface.h"
#include "world_builder/features/mantle_layer_models/grains/interface.h"
#include "world_builder/features/mantle_layer_models/velocity/interface.h"
using namespace H;
namespace CP = WorldBuilder::Features::ContinentalPlateModels;
namespace OP = WorldBuilder::Features::OceanicPlateModels;
namespace ML = WorldBuilder::Features::MantleLayerModels;

extern "C" void h_frame_continental(unsigned long L, unsigned long counts, unsigned long surf, unsigned long sph)
{ area_frame<Features::ContinentalPlate, CP::Temperature::Interface, CP::Composition::Interface, CP::Grains::Interface, CP::Velocity::Interface>(L, counts, surf, sph); }
extern "C" void h_frame_oceanic(unsigned long L, unsigned long counts, unsigned long surf, unsigned long sph)
{ area_frame<Features::OceanicPlate, OP::Temperature::Interface, OP::Composition::Interface, OP::Grains::Interface, OP::Velocity::Interface>(L, counts, surf, sph); }
extern "C" void h_frame_mantle(unsigned long L, unsigned long counts, unsigned long surf, unsigned long sph)
{ area_frame<Features::MantleLayer, ML::Temperature::Interface, ML::Composition::Interface, ML::Grains::Interface, ML::Velocity::Interface>(L, counts, surf, sph); }

// operations table, bit exact for all doubles
extern "C" void h_c02_op(void)
{
  using namespace Features::FeatureUtilities;
  const double o = sym_f64("old"), n = sym_f64("new");
  sym_assert(sym_same(apply_operation(Operations::REPLACE, o, n), n), "replace returns the new value");
  sym_assert(sym_same(apply_operation(Operations::REPLACE_DEFINED_ONLY, o, n), n), "replace defined only returns the new value");
  sym_assert(sym_same(apply_operation(Operations::ADD, o, n), o + n), "add offsets the earlier value");
  sym_assert(sym_same(apply_operation(Operations::SUBTRACT, o, n), o - n), "subtract offsets the earlier value");
  sym_reach("end");
}

// World::properties folds the features in file order: the answer is feature_F(...feature_1(background)); a non-covering
// feature can be deleted or moved without changing any slot; the tag is that of the last covering feature.
// Stub features here COMBINE with the incoming value (uninterpreted function of it), so order matters.
namespace
{
  struct CombFeature final : Features::Interface
  {
    unsigned id; bool inside;
    void parse_entries(Parameters &) override {}
    void properties(const Point<3> &, const Objects::NaturalCoordinate &, const double depth, const std::vector<Prop> &properties, const double,
                    const std::vector<size_t> &entry_in_output, std::vector<double> &output) const override
    {
      if (!inside) return;
      for (unsigned i = 0; i < properties.size(); ++i)
        for (unsigned s = 0; s < width_of(properties[i]); ++s)
          output[entry_in_output[i]+s] = properties[i][0] == 4 ? double(id) : sym_uf3(600 + id, output[entry_in_output[i]+s], double(10*properties[i][0] + s), depth);
    }
  };
  World *comb_world(unsigned which, const unsigned *ids, const bool *inside, unsigned n, World *like)
  {
    World *w = reinterpret_cast<World *>(world_storage[which]);
    w->dim = 3; w->limit_debug_consistency_checks = true;
    if (like)
      {
        w->potential_mantle_temperature = like->potential_mantle_temperature; w->surface_temperature = like->surface_temperature; w->force_surface_temperature = like->force_surface_temperature;
        w->thermal_expansion_coefficient = like->thermal_expansion_coefficient; w->specific_heat = like->specific_heat;
      }
    else
      {
        w->potential_mantle_temperature = sym_f64("Tp"); w->surface_temperature = sym_f64("Ts"); w->force_surface_temperature = false;
        w->thermal_expansion_coefficient = sym_f64("alpha"); w->specific_heat = sym_f64("cp");
      }
    new (&w->parameters.coordinate_system) std::unique_ptr<CoordinateSystems::Interface>(new CoordinateSystems::Cartesian(w));
    auto *g = new GravityModel::Uniform(w);
    g->gravity_magnitude = like ? static_cast<GravityModel::Uniform *>(like->parameters.gravity_model.get())->gravity_magnitude : sym_f64("g");
    new (&w->parameters.gravity_model) std::unique_ptr<GravityModel::Interface>(g);
    new (&w->parameters.features) std::vector<std::unique_ptr<Features::Interface>>();
    for (unsigned f = 0; f < n; ++f) { auto *s = new CombFeature(); s->id = ids[f]; s->inside = inside[f]; w->parameters.features.emplace_back(s); }
    return w;
  }
}
extern "C" void h_c02_fold(unsigned long L)
{
  // world A: features 0,1,2 in file order with symbolic coverage
  const unsigned idsA[3] = {0, 1, 2}; bool in[3] = {sym_bool("in0"), sym_bool("in1"), sym_bool("in2")};
  World *a = comb_world(0, idsA, in, 3, nullptr);
  const std::vector<Prop> props = make_request(static_cast<unsigned>(L), 1);
  const std::array<double,3> p = {{sym_f64("x"), sym_f64("y"), sym_f64("z")}}; const double depth = sym_f64("depth");
  const std::vector<double> ra = a->properties(p, depth, props);
  // oracle: start from the background (world without features) and apply the covering features in file order
  World *bgw = comb_world(1, idsA, in, 0, a);
  std::vector<double> expect = bgw->properties(p, depth, props);
  sym_assert(expect.size() == ra.size(), "same length");
  int last = -1;
  for (unsigned f = 0; f < 3; ++f)
    if (in[f])
      {
        last = int(f); unsigned off = 0;
        for (unsigned i = 0; i < props.size(); ++i)
          {
            for (unsigned s = 0; s < width_of(props[i]) && off + s < expect.size(); ++s)
              expect[off+s] = props[i][0] == 4 ? double(f) : sym_uf3(600 + f, expect[off+s], double(10*props[i][0] + s), depth);
            off += width_of(props[i]);
          }
      }
  for (unsigned q = 0; q < ra.size() && q < expect.size(); ++q) sym_assert(sym_same(ra[q], expect[q]), "answer = covering features applied to the background in file order");
  unsigned off = 0;
  for (unsigned i = 0; i < props.size(); ++i) { if (props[i][0] == 4 && off < ra.size()) sym_assert(ra[off] == double(last), "tag is that of the last covering feature (-1 if none)"); off += width_of(props[i]); }
  // world B: the non-covering feature 1 deleted;  world C: feature 1 moved to the front  (only meaningful when it does not cover)
  const unsigned idsB[2] = {0, 2}; const bool inB[2] = {in[0], in[2]};
  const unsigned idsC[3] = {1, 0, 2}; const bool inC[3] = {in[1], in[0], in[2]};
  const std::vector<double> rb = comb_world(1, idsB, inB, 2, a)->properties(p, depth, props);
  const std::vector<double> rc = comb_world(1, idsC, inC, 3, a)->properties(p, depth, props);
  if (!in[1])
    for (unsigned q = 0; q < ra.size(); ++q)
      {
        sym_assert(q < rb.size() && sym_same(ra[q], rb[q]), "deleting a non-covering feature changes nothing");
        sym_assert(q < rc.size() && sym_same(ra[q], rc[q]), "moving a non-covering feature changes nothing");
      }
  sym_reach("end");
}
