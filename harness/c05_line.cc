// C05 for the slab, fault and plume model families (closed-form models): each model is built by its real constructor
// and real parse_entries() through the Parameters stub and compared with the documented expression (exact-real reading).
#include "common.h"
#include "prm_stub.h"
#include "world_builder/utilities.h"
#include "world_builder/features/feature_utilities.h"
#include "world_builder/features/subducting_plate_models/temperature/uniform.h"
#include "world_builder/features/subducting_plate_models/temperature/linear.h"
#include "world_builder/features/subducting_plate_models/temperature/adiabatic.h"
#include "world_builder/features/subducting_plate_models/composition/uniform.h"
#include "world_builder/features/subducting_plate_models/velocity/uniform_raw.h"
#include "world_builder/features/subducting_plate_models/composition/smooth.h"
#include "world_builder/features/fault_models/composition/smooth.h"
#include "world_builder/features/fault_models/temperature/uniform.h"
#include "world_builder/features/fault_models/temperature/linear.h"
#include "world_builder/features/fault_models/temperature/adiabatic.h"
#include "world_builder/features/fault_models/composition/uniform.h"
#include "world_builder/features/fault_models/velocity/uniform_raw.h"
#include "world_builder/features/plume_models/temperature/uniform.h"
#include "world_builder/features/plume_models/temperature/gaussian.h"
#include "world_builder/features/plume_models/composition/uniform.h"
#include "world_builder/features/plume_models/velocity/uniform_raw.h"
#include <cmath>
using namespace H;
using Features::FeatureUtilities::Operations;
typedef WorldBuilder::Utilities::PointDistanceFromCurvedPlanes PD;
namespace SP = WorldBuilder::Features::SubductingPlateModels;
namespace FM = WorldBuilder::Features::FaultModels;
namespace PM = WorldBuilder::Features::PlumeModels;
namespace
{
  double combine(const Operations op, const double old, const double value)
  { return op == Operations::ADD ? old + value : (op == Operations::SUBTRACT ? old - value : value); }
  double adiabat(const World *w, const double g, const double d) { return w->potential_mantle_temperature * std::exp(w->thermal_expansion_coefficient * g * d / w->specific_heat); }
  struct Q { World *w; Point<3> pos; double depth, g, old, fmin, fmax; PD pd; Features::AdditionalParameters ap; double dist; };
  Q query()
  {
    World *w = make_world(0); sym_assume(w->specific_heat > 0);
    Q q = {w, Point<3>(sym_f64("x"), sym_f64("y"), sym_f64("z"), cartesian), sym_f64("depth"), sym_f64("gravity"), sym_f64("old"), sym_f64("fmin"), sym_f64("fmax"), PD(cartesian), {sym_f64("local length"), sym_f64("local thickness")}, 0};
    q.pd.distance_from_plane = sym_f64("distance from plane"); q.pd.distance_along_plane = sym_f64("distance along plane");
    q.pd.fraction_of_section = 0.5; q.pd.fraction_of_segment = 0.5; q.pd.section = 0; q.pd.segment = 0; q.pd.average_angle = 0.1; q.pd.depth_reference_surface = 0;
    return q;
  }
  // slab: signed distance below the slab top; fault: distance from the fault centre (absolute value)
  template <class M> M *build(World *w) { M *m = new M(w); m->parse_entries(w->parameters); sym_freeze(); return m; }

  template <class M> void line_uniform_T(const bool fault)
  {
    Q q = query(); M *m = build<M>(q.w);
    const double d = fault ? std::fabs(q.pd.distance_from_plane) : q.pd.distance_from_plane;
    const double T = m->M::get_temperature(q.pos, q.depth, q.g, q.old, q.fmin, q.fmax, q.pd, q.ap);
    sym_assert(sym_writes() == 0, "the model query stores only to fresh memory");
    if (d <= m->max_depth && d >= m->min_depth) sym_assert(sym_eq(T, combine(m->operation, q.old, m->temperature)), "uniform temperature: the configured value combined by the declared operation");
    else sym_assert(sym_eq(T, q.old), "outside its own range the model returns the incoming value");
    sym_reach("end");
  }
  template <class M> void line_adiabatic_T(const bool fault)
  {
    Q q = query(); M *m = build<M>(q.w); sym_assume(m->specific_heat != 0);
    const double d = fault ? std::fabs(q.pd.distance_from_plane) : q.pd.distance_from_plane;
    const double T = m->M::get_temperature(q.pos, q.depth, q.g, q.old, q.fmin, q.fmax, q.pd, q.ap);
    sym_assert(sym_writes() == 0, "the model query stores only to fresh memory");
    sym_assert((m->potential_mantle_temperature >= 0 || q.w->potential_mantle_temperature < 0) && (m->thermal_expansion_coefficient >= 0 || q.w->thermal_expansion_coefficient < 0), "negative local constants are replaced by the global ones");
    if (d <= m->max_depth && d >= m->min_depth) sym_assert(sym_eq(T, combine(m->operation, q.old, m->potential_mantle_temperature * std::exp(m->thermal_expansion_coefficient * q.g * q.depth / m->specific_heat))), "adiabatic temperature: Tp*exp(alpha*g*depth/cp) with the model's constants");
    else sym_assert(sym_eq(T, q.old), "outside its own range the model returns the incoming value");
    sym_reach("end");
  }
  // slab: top/bottom temperature; fault: center/side temperature.  Linear in the distance between the model's min and max distance.
  template <class M> void line_linear_T(const bool fault, const double M::*t0, const double M::*t1, const bool any_range)
  {
    Q q = query(); M *m = build<M>(q.w);
    const double d = fault ? std::fabs(q.pd.distance_from_plane) : q.pd.distance_from_plane;
    if (!any_range) sym_assume(m->max_depth - m->min_depth >= 1e-9);      // any_range: C13's domain-safety run over the whole schema domain (min == max is a legal file)
    else sym_assume(m->max_depth >= m->min_depth);
    const double T = m->M::get_temperature(q.pos, q.depth, q.g, q.old, q.fmin, q.fmax, q.pd, q.ap);
    sym_assert(sym_writes() == 0, "the model query stores only to fresh memory");
    if (!(d <= m->max_depth && d >= m->min_depth)) { sym_assert(sym_eq(T, q.old), "outside its own range the model returns the incoming value"); sym_reach("end-out"); return; }
    const double a = m->*t0 >= 0 ? m->*t0 : adiabat(q.w, q.g, m->min_depth), b = m->*t1 >= 0 ? m->*t1 : adiabat(q.w, q.g, m->max_depth);      // negative => adiabatic
    if (any_range) { sym_reach("end"); return; }
    const double value = a + (d - m->min_depth) * (b - a) / (m->max_depth - m->min_depth);
    sym_assert(sym_eq(T, combine(m->operation, q.old, value)), "linear temperature: linear in the distance between the model's two bounds (negative end members => adiabat there)");
    sym_reach("end");
  }
  template <class M> void line_uniform_C(const bool fault, unsigned long n)
  {
    prm.set_len("compositions", unsigned(n)); prm.set_len("fractions", unsigned(n));
    Q q = query(); M *m = build<M>(q.w);
    for (unsigned i = 0; i < m->compositions.size(); ++i) for (unsigned j = 0; j < i; ++j) sym_assume(m->compositions[i] != m->compositions[j]);
    const double d = fault ? std::fabs(q.pd.distance_from_plane) : q.pd.distance_from_plane; const unsigned number = sym_u32("number");
    const double C = m->M::get_composition(q.pos, q.depth, number, q.old, q.fmin, q.fmax, q.pd, q.ap);
    sym_assert(sym_writes() == 0, "the model query stores only to fresh memory");
    if (!(d <= m->max_depth && d >= m->min_depth)) { sym_assert(sym_eq(C, q.old), "outside its own range the model returns the incoming value"); sym_reach("end-out"); return; }
    bool listed = false; double fraction = 0;
    for (unsigned i = 0; i < m->compositions.size(); ++i) if (m->compositions[i] == number) { listed = true; fraction = m->fractions[i]; }
    if (listed) sym_assert(sym_eq(C, combine(m->operation, q.old, fraction)), "uniform composition: a listed composition gets its fraction combined by the operation");
    else if (m->operation == Operations::REPLACE) sym_assert(C == 0.0, "uniform composition: replace clears the compositions it does not list");
    else sym_assert(sym_eq(C, q.old), "uniform composition: other operations leave unlisted compositions untouched");
    sym_reach("end");
  }
  template <class M> void line_uniform_V(const bool fault)
  {
    prm.set_len("velocity", 3);
    Q q = query(); M *m = build<M>(q.w);
    const double d = fault ? std::fabs(q.pd.distance_from_plane) : q.pd.distance_from_plane;
    const std::array<double,3> old = {{sym_f64("v0"), sym_f64("v1"), sym_f64("v2")}};
    const std::array<double,3> V = m->M::get_velocity(q.pos, q.depth, q.g, old, q.fmin, q.fmax, q.pd, q.ap);
    sym_assert(sym_writes() == 0, "the model query stores only to fresh memory");
    for (unsigned c = 0; c < 3; ++c)
      {
        if (d <= m->max_depth && d >= m->min_depth) sym_assert(sym_eq(V[c], combine(m->operation, old[c], m->velocity[c])), "uniform raw velocity: the configured vector combined by the operation");
        else sym_assert(sym_eq(V[c], old[c]), "outside its own range the model returns the incoming value");
      }
    sym_reach("end");
  }
}
extern "C" void h_c05_line_uniform_T(unsigned long fault) { if (fault) line_uniform_T<FM::Temperature::Uniform>(true); else line_uniform_T<SP::Temperature::Uniform>(false); }
extern "C" void h_c05_line_adiabatic_T(unsigned long fault) { if (fault) line_adiabatic_T<FM::Temperature::Adiabatic>(true); else line_adiabatic_T<SP::Temperature::Adiabatic>(false); }
extern "C" void h_c05_line_linear_T(unsigned long fault, unsigned long any_range)
{
  if (fault) line_linear_T<FM::Temperature::Linear>(true, &FM::Temperature::Linear::center_temperature, &FM::Temperature::Linear::side_temperature, any_range != 0);
  else line_linear_T<SP::Temperature::Linear>(false, &SP::Temperature::Linear::top_temperature, &SP::Temperature::Linear::bottom_temperature, any_range != 0);
}
extern "C" void h_c05_line_uniform_C(unsigned long fault, unsigned long n) { if (fault) line_uniform_C<FM::Composition::Uniform>(true, n); else line_uniform_C<SP::Composition::Uniform>(false, n); }
extern "C" void h_c05_line_uniform_V(unsigned long fault) { if (fault) line_uniform_V<FM::Velocity::UniformRaw>(true); else line_uniform_V<SP::Velocity::UniformRaw>(false); }

// smooth composition.  slab: between min and max distance from the slab top the fraction goes from 'top fractions' to 'bottom fractions' along
// f(d) = (1 - tanh(10 (d - w/2 - min)/w))/2, w = |max - min|.  fault: from 'center fractions' at the centre to 'side fractions' at 'side distance'
// along f(d) = (1 - tanh(10 (d - w/2)/w))/2 (d = distance from the centre as handed over by Fault::properties, non-negative).
extern "C" void h_c05_line_smooth_C(unsigned long fault, unsigned long n)
{
  prm.set_len("compositions", unsigned(n)); prm.set_len("top fractions", unsigned(n)); prm.set_len("bottom fractions", unsigned(n)); prm.set_len("center fractions", unsigned(n)); prm.set_len("side fractions", unsigned(n));
  Q q = query(); const unsigned number = sym_u32("number"); const double d = q.pd.distance_from_plane;
  double C; Operations op; bool in_range, listed = false; double value = 0;
  if (fault)
    {
      auto *m = build<FM::Composition::Smooth>(q.w);
      for (unsigned i = 0; i < m->compositions.size(); ++i) for (unsigned j = 0; j < i; ++j) sym_assume(m->compositions[i] != m->compositions[j]);
      sym_assume(d >= 0 && m->side_distance > 0);
      C = m->FM::Composition::Smooth::get_composition(q.pos, q.depth, number, q.old, q.fmin, q.fmax, q.pd, q.ap); op = m->operation; in_range = true;
      const double f = (1 - std::tanh(10 * (d - m->side_distance / 2) / m->side_distance)) / 2;
      for (unsigned i = 0; i < m->compositions.size(); ++i) if (m->compositions[i] == number) { listed = true; value = m->center_fraction[i] * f + m->side_fraction[i] * (1 - f); }
    }
  else
    {
      auto *m = build<SP::Composition::Smooth>(q.w);
      for (unsigned i = 0; i < m->compositions.size(); ++i) for (unsigned j = 0; j < i; ++j) sym_assume(m->compositions[i] != m->compositions[j]);
      sym_assume(m->max_distance > m->min_distance);
      C = m->SP::Composition::Smooth::get_composition(q.pos, q.depth, number, q.old, q.fmin, q.fmax, q.pd, q.ap); op = m->operation; in_range = d <= m->max_distance && d >= m->min_distance;
      const double w = m->max_distance - m->min_distance;
      const double f = (1 - std::tanh(10 * (d - w / 2 - m->min_distance) / w)) / 2;
      for (unsigned i = 0; i < m->compositions.size(); ++i) if (m->compositions[i] == number) { listed = true; value = m->top_fraction[i] * f + m->bottom_fraction[i] * (1 - f); }
    }
  sym_assert(sym_writes() == 0, "the model query stores only to fresh memory");
  if (!in_range) { sym_assert(sym_eq(C, q.old), "outside its own range the model returns the incoming value"); sym_reach("end-out"); return; }
  if (listed) sym_assert(sym_eq(C, combine(op, q.old, value)), "smooth composition: the first fraction at the near end, the second at the far end, blended by (1 - tanh(10 (d - w/2)/w))/2");
  else if (op == Operations::REPLACE) sym_assert(C == 0.0, "smooth composition: replace clears the compositions it does not list");
  else sym_assert(sym_eq(C, q.old), "smooth composition: other operations leave unlisted compositions untouched");
  sym_reach("end");
}

// ---- plume family
extern "C" void h_c05_plume_uniform_T(void)
{
  Q q = query(); auto *m = build<PM::Temperature::Uniform>(q.w); const Objects::NaturalCoordinate nc(q.pos, *q.w->parameters.coordinate_system);
  const double T = m->PM::Temperature::Uniform::get_temperature(q.pos, nc, q.depth, q.g, q.old, q.fmin, q.fmax, sym_f64("relative"));
  sym_assert(sym_writes() == 0, "the model query stores only to fresh memory");
  if (q.depth <= m->max_depth && q.depth >= m->min_depth) sym_assert(sym_eq(T, combine(m->operation, q.old, m->temperature)), "uniform temperature: the configured value combined by the declared operation");
  else sym_assert(sym_eq(T, q.old), "outside its own range the model returns the incoming value");
  sym_reach("end");
}
// gaussian plume: T = Tc(depth) * exp(-rel / (2 sigma(depth)^2)), Tc and sigma linearly interpolated between the listed depths
// (first/last entry outside them), negative Tc => adiabat at that depth
extern "C" void h_c05_plume_gaussian_T(unsigned long n, unsigned long any_sigma)
{
  prm.set_len("depths", unsigned(n)); prm.set_len("centerline temperatures", unsigned(n)); prm.set_len("gaussian sigmas", unsigned(n));
  Q q = query(); auto *m = build<PM::Temperature::Gaussian>(q.w); const Objects::NaturalCoordinate nc(q.pos, *q.w->parameters.coordinate_system);
  for (unsigned i = 1; i < n; ++i) sym_assume(m->depths[i] > m->depths[i-1]);
  if (!any_sigma) for (unsigned i = 0; i < n; ++i) sym_assume(m->gaussian_sigmas[i] > 0);      // any_sigma: C13's domain-safety run over the whole schema domain
  const double rel = sym_f64("relative");
  const double T = m->PM::Temperature::Gaussian::get_temperature(q.pos, nc, q.depth, q.g, q.old, q.fmin, q.fmax, rel);
  sym_assert(sym_writes() == 0, "the model query stores only to fresh memory");
  if (!(q.depth <= q.fmax && q.depth >= q.fmin && rel <= 1.)) { sym_assert(sym_eq(T, q.old), "outside the plume the model returns the incoming value"); sym_reach("end-out"); return; }
  double Tc, sigma;
  if (q.depth < m->depths[0]) { Tc = m->center_temperatures[0]; sigma = m->gaussian_sigmas[0]; }
  else if (q.depth >= m->depths[n-1]) { Tc = m->center_temperatures[n-1]; sigma = m->gaussian_sigmas[n-1]; }
  else
    {
      unsigned i = 1; while (i < n && !(m->depths[i-1] <= q.depth && q.depth < m->depths[i])) ++i;
      const double t = (q.depth - m->depths[i-1]) / (m->depths[i] - m->depths[i-1]);
      Tc = m->center_temperatures[i-1] + t * (m->center_temperatures[i] - m->center_temperatures[i-1]); sigma = m->gaussian_sigmas[i-1] + t * (m->gaussian_sigmas[i] - m->gaussian_sigmas[i-1]);
    }
  if (Tc < 0) Tc = adiabat(q.w, q.g, q.depth);
  if (any_sigma) { sym_reach("end"); return; }
  sym_assert(sym_eq(T, combine(m->operation, q.old, Tc * std::exp(-rel / (2. * sigma * sigma)))), "gaussian plume temperature: Tc * exp(-r/(2 sigma^2)) with Tc and sigma interpolated in depth (negative Tc => adiabat)");
  sym_reach("end");
}
extern "C" void h_c05_plume_uniform_C(unsigned long n)
{
  prm.set_len("compositions", unsigned(n)); prm.set_len("fractions", unsigned(n));
  Q q = query(); auto *m = build<PM::Composition::Uniform>(q.w); const Objects::NaturalCoordinate nc(q.pos, *q.w->parameters.coordinate_system);
  for (unsigned i = 0; i < m->compositions.size(); ++i) for (unsigned j = 0; j < i; ++j) sym_assume(m->compositions[i] != m->compositions[j]);
  const unsigned number = sym_u32("number");
  const double C = m->PM::Composition::Uniform::get_composition(q.pos, nc, q.depth, number, q.old, q.fmin, q.fmax);
  sym_assert(sym_writes() == 0, "the model query stores only to fresh memory");
  if (!(q.depth <= m->max_depth && q.depth >= m->min_depth)) { sym_assert(sym_eq(C, q.old), "outside its own range the model returns the incoming value"); sym_reach("end-out"); return; }
  bool listed = false; double fraction = 0;
  for (unsigned i = 0; i < m->compositions.size(); ++i) if (m->compositions[i] == number) { listed = true; fraction = m->fractions[i]; }
  if (listed) sym_assert(sym_eq(C, combine(m->operation, q.old, fraction)), "uniform composition: a listed composition gets its fraction combined by the operation");
  else if (m->operation == Operations::REPLACE) sym_assert(C == 0.0, "uniform composition: replace clears the compositions it does not list");
  else sym_assert(sym_eq(C, q.old), "uniform composition: other operations leave unlisted compositions untouched");
  sym_reach("end");
}
