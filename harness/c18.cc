// C18.filter (shares the inclusion of the unchanged gwb-grid/main.cc with c14.cc)
// C14.slices: gwb-grid's ThreadPool::parallel_for hands out disjoint, contiguous slices covering exactly [start,end).
// main.cc is compiled unchanged; the identifier `thread` is mapped to a recording class so that no thread is started:
// each would-be thread's slice (k1,k2) is recorded instead (schedules are discharged by the frame argument, DESIGN.md 4/C14).
#include <thread>
#include <vector>
#include <string>
#include <iostream>
#include <fstream>
#include <sstream>
#include <algorithm>
#include <cmath>
#include <memory>
#include <array>
#include <map>
#include <unordered_map>
#include <functional>
#include <numeric>
#include <limits>
#include <iomanip>
#include <set>
#include "sym.h"
#include "world_builder/world.h"
#include "world_builder/utilities.h"
#include "world_builder/point.h"
#include "world_builder/assert.h"
#include "world_builder/coordinate_system.h"
#include "world_builder/config.h"
#include "vtu11/vtu11.hpp"
namespace verif { struct Slice { unsigned long k1, k2; }; static Slice slices[64]; static unsigned n_slices = 0; static unsigned n_joined = 0; }
namespace std
{
  struct verif_thread
  {
    bool started = false;
    verif_thread() = default;
    template <class F> verif_thread(F, size_t k1, size_t k2) : started(true) { if (verif::n_slices < 64) { verif::slices[verif::n_slices].k1 = k1; verif::slices[verif::n_slices].k2 = k2; } ++verif::n_slices; }
    bool joinable() const { return started; }
    void join() { started = false; ++verif::n_joined; }
    static unsigned hardware_concurrency() { return 1; }
  };
}
#define thread verif_thread
#define main gwb_grid_main
#include "gwb-grid/main.cc"
#undef main
#undef thread


// C18.filter: the filtered mesh contains exactly the cells whose highest node tag t satisfies t >= 0 and include_tag[t], in order,
// with unchanged node coordinates and data values (3 components for the velocity), consistent connectivity/offsets/types.
// dim = 2: 4 vertices per cell; n_cells cells over n_nodes nodes with an arbitrary connectivity.
extern "C" void h_c18_filter(unsigned long n_cells, unsigned long n_nodes, unsigned long stride)
{
  std::vector<double> points(3 * n_nodes); std::vector<vtu11::VtkIndexType> conn(4 * n_cells), offsets(n_cells); std::vector<vtu11::VtkCellType> types(n_cells);
  std::vector<vtu11::DataSetData> data(5);          // depth, temperature, velocity (3 per node), tag, one composition
  for (unsigned d = 0; d < 5; ++d) data[d].resize(d == 2 ? 3 * n_nodes : n_nodes);
  for (unsigned i = 0; i < 3 * n_nodes; ++i) { points[i] = sym_f64("coordinate"); data[2][i] = sym_f64("velocity"); }
  for (unsigned i = 0; i < n_nodes; ++i)
    {
      data[0][i] = sym_f64("depth"); data[1][i] = sym_f64("temperature"); data[4][i] = sym_f64("composition");
      const unsigned t = sym_u32("tag+1"); sym_assume(t <= 3);                                        // tags -1..2 (forked: one path per tag assignment)
      switch (t) { case 0: data[3][i] = -1.0; break; case 1: data[3][i] = 0.0; break; case 2: data[3][i] = 1.0; break; default: data[3][i] = 2.0; }
    }
  for (unsigned c = 0; c < n_cells; ++c)
    {
      types[c] = 9; offsets[c] = 4 * (c + 1);
      // connectivity pattern: cell c uses nodes (c*stride + v) mod n_nodes: neighbouring cells share nodes when stride < 4
      for (unsigned v = 0; v < 4; ++v) conn[4*c+v] = static_cast<vtu11::VtkIndexType>((c * stride + v) % n_nodes);
    }
  std::vector<bool> include(3); bool inc[3];
  for (unsigned t = 0; t < 3; ++t) { inc[t] = sym_bool("include"); include[t] = inc[t]; }
  vtu11::Vtu11UnstructuredMesh in {points, conn, offsets, types};
  std::vector<double> opoints; std::vector<vtu11::VtkIndexType> oconn, ooffsets; std::vector<vtu11::VtkCellType> otypes;
  vtu11::Vtu11UnstructuredMesh out {opoints, oconn, ooffsets, otypes};
  std::vector<vtu11::DataSetData> odata;
  filter_vtu_mesh(2, include, in, data, out, odata);
  // oracle: which cells are selected
  unsigned expected = 0; unsigned sel[4];
  for (unsigned c = 0; c < n_cells; ++c)
    {
      int hi = -1;
      for (unsigned v = 0; v < 4; ++v) { const int t = int(data[3][static_cast<size_t>(conn[4*c+v])]); if (t > hi) hi = t; }
      if (hi >= 0 && inc[hi]) sel[expected++] = c;
    }
  sym_assert(otypes.size() == expected && ooffsets.size() == expected && oconn.size() == 4 * expected, "the filtered mesh has exactly the selected cells");
  sym_assert(odata.size() == 5, "all data sets are kept");
  if (otypes.size() != expected || oconn.size() != 4 * expected || odata.size() != 5) return;
  const size_t n_out = opoints.size() / 3;
  sym_assert(opoints.size() == 3 * n_out && odata[0].size() == n_out && odata[1].size() == n_out && odata[2].size() == 3 * n_out && odata[3].size() == n_out && odata[4].size() == n_out, "every data set has one entry (three for the velocity) per output node");
  for (unsigned k = 0; k < expected; ++k)
    {
      sym_assert(otypes[k] == types[sel[k]] && ooffsets[k] == static_cast<long>(4 * (k + 1)), "cell types and offsets are consistent, cells keep their order");
      for (unsigned v = 0; v < 4; ++v)
        {
          const size_t dst = static_cast<size_t>(oconn[4*k+v]), src = static_cast<size_t>(conn[4*sel[k]+v]);
          sym_assert(oconn[4*k+v] >= 0 && dst < n_out, "cells reference existing output nodes");
          if (dst >= n_out) return;
          bool same = true;
          for (unsigned i = 0; i < 3; ++i) same = same && sym_same(opoints[3*dst+i], points[3*src+i]) && sym_same(odata[2][3*dst+i], data[2][3*src+i]);
          same = same && sym_same(odata[0][dst], data[0][src]) && sym_same(odata[1][dst], data[1][src]) && sym_same(odata[3][dst], data[3][src]) && sym_same(odata[4][dst], data[4][src]);
          sym_assert(same, "every output node carries the coordinates and all data values of its source node");
        }
    }
  sym_reach("end");
}
