// Shared pre-state construction for harnesses: a World in raw storage whose members are set directly
// (compiled with -fno-access-control), real coordinate-system and gravity objects, stub features.
#ifndef WB_VERIF_COMMON_H
#define WB_VERIF_COMMON_H
#include "sym.h"
#include "world_builder/world.h"
#include "world_builder/features/interface.h"
#include "world_builder/coordinate_systems/cartesian.h"
#include "world_builder/coordinate_systems/spherical.h"
#include "world_builder/gravity_model/uniform.h"
#include "world_builder/objects/natural_coordinate.h"
#include <new>
#include <vector>
#include <array>
namespace H
{
  using namespace WorldBuilder;
  typedef std::array<unsigned int,3> Prop;
  inline unsigned width_of(const Prop &p) { return p[0] == 3 ? p[2]*10 : (p[0] == 5 ? 3 : 1); }

  // A feature whose effect is an uninterpreted function of (feature id, kind, n, k, slot): any offset error in the
  // caller shows up as a misplaced or missing value.  Painting is controlled by a symbolic flag.
  struct StubFeature final : Features::Interface
  {
    unsigned id; bool inside;
    void parse_entries(Parameters &) override {}
    void properties(const Point<3> &, const Objects::NaturalCoordinate &, const double,
                    const std::vector<Prop> &properties, const double,
                    const std::vector<size_t> &entry_in_output, std::vector<double> &output) const override
    {
      if (!inside) return;
      for (unsigned i = 0; i < properties.size(); ++i)
        {
          const unsigned w = width_of(properties[i]);
          for (unsigned s = 0; s < w; ++s)
            output[entry_in_output[i]+s] = sym_ufi(id, properties[i][0], properties[i][1], properties[i][2], s);
        }
    }
  };

  alignas(World) static unsigned char world_storage[2][sizeof(World)];

  // which: slot of the raw storage; spherical: coordinate system; n_features stub features with symbolic 'inside'
  inline World *make_world(unsigned n_features, bool spherical_cs = false, unsigned which = 0)
  {
    World *w = reinterpret_cast<World *>(world_storage[which]);
    w->dim = 3;
    w->potential_mantle_temperature = sym_f64("Tp");
    w->surface_temperature = sym_f64("Ts");
    w->force_surface_temperature = sym_bool("force");
    w->thermal_expansion_coefficient = sym_f64("alpha");
    w->specific_heat = sym_f64("cp");
    w->limit_debug_consistency_checks = true;
    if (spherical_cs)
      {
        auto *c = new CoordinateSystems::Spherical(w);
        c->used_depth_method = DepthMethod::angle_at_begin_segment_with_surface;
        new (&w->parameters.coordinate_system) std::unique_ptr<CoordinateSystems::Interface>(c);
      }
    else
      new (&w->parameters.coordinate_system) std::unique_ptr<CoordinateSystems::Interface>(new CoordinateSystems::Cartesian(w));
    auto *g = new GravityModel::Uniform(w); g->gravity_magnitude = sym_f64("g");
    new (&w->parameters.gravity_model) std::unique_ptr<GravityModel::Interface>(g);
    new (&w->parameters.features) std::vector<std::unique_ptr<Features::Interface>>();
    for (unsigned f = 0; f < n_features; ++f)
      {
        auto *s = new StubFeature(); s->id = f; s->inside = sym_bool("inside");
        w->parameters.features.emplace_back(s);
      }
    return w;
  }

  inline void make_2d(World *w)
  {
    w->dim = 2;
    new (&w->cross_section) std::vector<Point<2>>();
    w->cross_section.emplace_back(sym_f64("o0"), sym_f64("o1"), cartesian);
    w->cross_section.emplace_back(sym_f64("e0"), sym_f64("e1"), cartesian);
    w->surface_coord_conversions = Point<2>(sym_f64("d0"), sym_f64("d1"), cartesian);
  }

  // a request of L entries: kinds 1..5, composition number < 4, grains count <= kmax
  inline std::vector<Prop> make_request(unsigned L, unsigned kmax)
  {
    std::vector<Prop> props;
    for (unsigned i = 0; i < L; ++i)
      {
        Prop p = {{sym_u32("kind"), sym_u32("n"), sym_u32("k")}};
        sym_assume(p[0] >= 1 && p[0] <= 5 && p[1] < 4 && p[2] <= kmax);
        props.push_back(p);
      }
    return props;
  }
}
#endif
