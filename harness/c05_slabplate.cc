// C05/C20: the slab "plate model" temperature (McKenzie 1970): built by its real constructor and parse_entries() through the Parameters
// stub and compared with the documented 500-term series, term by term (libm purely uninterpreted: structural comparison, every term must be there).
#include "common.h"
#include "prm_stub.h"
#include "world_builder/utilities.h"
#include "world_builder/features/feature_utilities.h"
#include "world_builder/features/subducting_plate_models/temperature/plate_model.h"
#include <cmath>
#include <limits>
using namespace H;
using Features::FeatureUtilities::Operations;
typedef WorldBuilder::Utilities::PointDistanceFromCurvedPlanes PD;
typedef WorldBuilder::Features::SubductingPlateModels::Temperature::PlateModel M;

extern "C" void h_c05_slab_plate(unsigned long adiabatic)
{
  World *w = make_world(0);
  M *m = new M(w); m->parse_entries(w->parameters); sym_freeze();
  const Point<3> pos(sym_f64("x"), sym_f64("y"), sym_f64("z"), cartesian);
  const double depth = sym_f64("depth"), g = sym_f64("gravity"), old = sym_f64("old");
  PD pd(cartesian); pd.distance_from_plane = sym_f64("distance from plane"); pd.distance_along_plane = sym_f64("distance along plane");
  pd.fraction_of_section = 0.5; pd.fraction_of_segment = 0.5; pd.section = 0; pd.segment = 0; pd.average_angle = 0.1; pd.depth_reference_surface = 0;
  const Features::AdditionalParameters ap = {sym_f64("local length"), sym_f64("local thickness")};
  const double eps2 = 2.0 * std::numeric_limits<double>::epsilon();
  // stated restrictions of this obligation: replace operation, both distances away from the protected zero, adiabatic heating fixed per case
  sym_assume(m->operation == Operations::REPLACE && m->adiabatic_heating == (adiabatic != 0));
  sym_assume(pd.distance_from_plane >= eps2 && pd.distance_along_plane >= eps2);
  sym_assume(pd.distance_from_plane <= m->max_depth && pd.distance_from_plane >= m->min_depth);
  const double T = m->M::get_temperature(pos, depth, g, old, 0, 1, pd, ap);
  sym_assert(sym_writes() == 0, "the model query stores only to fresh memory");
  // documented series
  const double H_ = std::min(ap.local_thickness, m->max_depth);
  const double R = (m->density * m->specific_heat * (m->plate_velocity / (365.25 * 24.0 * 60.0 * 60.0)) * H_) / (2.0 * m->thermal_conductivity);
  const double zs = 1 - pd.distance_from_plane / H_, xs = pd.distance_along_plane / H_;
  const double ad = adiabatic ? std::exp(((m->thermal_expansion_coefficient * g * depth) / m->specific_heat)) : 1;
  double sum = 0;
  for (int i = 1; i <= 500; i++)
    sum += (std::pow((-1.0), i) / (i * Consts::PI)) * (exp((R - std::pow(R * R + i * i * Consts::PI * Consts::PI, 0.5)) * xs)) * (sin(i * Consts::PI * zs));
  const double want = ad * (m->potential_mantle_temperature + 2.0 * (m->potential_mantle_temperature - 273.15) * sum);
  sym_assert(sym_eq(T, want), "slab plate model: Tm (1 + 2 (1 - 273.15/Tm) sum over all 500 terms of (-1)^n/(n pi) exp((R - sqrt(R^2 + n^2 pi^2)) x') sin(n pi z'))");
  sym_reach("end");
}
