// C01: batched layout, single-vs-batched entry points, purity of World::properties, grains round trip.
#include "common.h"
#include "world_builder/grains.h"
using namespace H;

static void check_blocks(World *w, bool two_d, unsigned L, unsigned kmax, unsigned kind0)
{
  const std::vector<Prop> props = make_request(L, kmax);
  if (kind0) sym_assume(props[0][0] == kind0);        // case split (the cases together cover kinds 1..5)
  const double depth = sym_f64("depth");
  std::vector<double> batched; std::array<double,3> p3 = {{0,0,0}}; std::array<double,2> p2 = {{0,0}};
  if (two_d) { p2 = {{sym_f64("x"), sym_f64("z")}}; batched = w->properties(p2, depth, props); }
  else       { p3 = {{sym_f64("x"), sym_f64("y"), sym_f64("z")}}; batched = w->properties(p3, depth, props); }
  unsigned expected = 0;
  for (unsigned i = 0; i < L; ++i) expected += width_of(props[i]);
  sym_assert(batched.size() == expected, "batched size is the sum of the widths");
  sym_assert(w->properties_output_size(props) == expected, "announced size is the sum of the widths");
  unsigned off = 0;
  for (unsigned i = 0; i < L; ++i)
    {
      const std::vector<double> single = two_d ? w->properties(p2, depth, {props[i]}) : w->properties(p3, depth, {props[i]});
      sym_assert(single.size() == width_of(props[i]), "stand-alone size");
      for (unsigned s = 0; s < single.size() && off + s < batched.size(); ++s)
        sym_assert(sym_same(batched[off+s], single[s]), "block equals stand-alone answer");
      off += width_of(props[i]);
    }
  sym_reach("end");
}

extern "C" void h_c01_layout3(unsigned long L, unsigned long kmax, unsigned long nfeat, unsigned long kind0)
{
  World *w = make_world(static_cast<unsigned>(nfeat));
  check_blocks(w, false, static_cast<unsigned>(L), static_cast<unsigned>(kmax), static_cast<unsigned>(kind0));
}

extern "C" void h_c01_layout2(unsigned long L, unsigned long kmax, unsigned long nfeat, unsigned long kind0)
{
  World *w = make_world(static_cast<unsigned>(nfeat));
  make_2d(w);
  check_blocks(w, true, static_cast<unsigned>(L), static_cast<unsigned>(kmax), static_cast<unsigned>(kind0));
}

// single-property entry points equal the corresponding one-entry batched request
extern "C" void h_c01_single(unsigned long two_d)
{
  World *w = make_world(1);
  if (two_d) make_2d(w);
  const double depth = sym_f64("depth");
  const std::array<double,3> p3 = {{sym_f64("x"), sym_f64("y"), sym_f64("z")}};
  const std::array<double,2> p2 = {{p3[0], p3[2]}};
  const unsigned n = sym_u32("n"); sym_assume(n < 4);
  const unsigned k = sym_u32("k"); sym_assume(k <= 2);
  const double T = two_d ? w->temperature(p2, depth) : w->temperature(p3, depth);
  const std::vector<double> bT = two_d ? w->properties(p2, depth, {{{1,0,0}}}) : w->properties(p3, depth, {{{1,0,0}}});
  sym_assert(bT.size() == 1 && sym_same(T, bT[0]), "temperature() equals the batched answer");
  const double C = two_d ? w->composition(p2, depth, n) : w->composition(p3, depth, n);
  const std::vector<double> bC = two_d ? w->properties(p2, depth, {{{2,n,0}}}) : w->properties(p3, depth, {{{2,n,0}}});
  sym_assert(bC.size() == 1 && sym_same(C, bC[0]), "composition() equals the batched answer");
  const WorldBuilder::grains G = two_d ? w->grains(p2, depth, n, k) : w->grains(p3, depth, n, k);
  const std::vector<double> bG = two_d ? w->properties(p2, depth, {{{3,n,k}}}) : w->properties(p3, depth, {{{3,n,k}}});
  sym_assert(bG.size() == 10*k && G.sizes.size() == k && G.rotation_matrices.size() == k, "grains() sizes");
  for (unsigned g = 0; g < k && g < G.sizes.size(); ++g)
    {
      sym_assert(sym_same(G.sizes[g], bG[g]), "grains() size entry");
      for (unsigned r = 0; r < 9; ++r)
        sym_assert(sym_same(G.rotation_matrices[g][r/3][r%3], bG[k + 9*g + r]), "grains() rotation entry");
    }
  sym_reach("end");
}

// no store to any object that existed before the query, other than the caller's result
extern "C" void h_c01_pure(unsigned long two_d, unsigned long L)
{
  World *w = make_world(2);
  if (two_d) make_2d(w);
  const std::vector<Prop> props = make_request(static_cast<unsigned>(L), 2);
  const double depth = sym_f64("depth");
  const std::array<double,3> p3 = {{sym_f64("x"), sym_f64("y"), sym_f64("z")}};
  const std::array<double,2> p2 = {{p3[0], p3[2]}};
  sym_freeze();
  const std::vector<double> r = two_d ? w->properties(p2, depth, props) : w->properties(p3, depth, props);
  sym_assert(sym_writes() == 0, "query stores only to fresh memory");
  sym_reach("end");
}

// grains constructor / unroll_into index arithmetic: unroll(grains(v, k, s)) restores the same 10k slots and nothing else
extern "C" void h_c01_grains_roundtrip(unsigned long k, unsigned long start)
{
  const unsigned n = static_cast<unsigned>(start + 10*k + 2);
  std::vector<double> v(n), out(n);
  for (unsigned i = 0; i < n; ++i) { v[i] = sym_f64("v"); out[i] = sym_f64("o"); }
  const std::vector<double> before = out;
  const WorldBuilder::grains g(v, k, start);
  sym_assert(g.sizes.size() == k && g.rotation_matrices.size() == k, "grains object has k grains");
  g.unroll_into(out, start);
  for (unsigned i = 0; i < n; ++i)
    {
      if (i >= start && i < start + 10*k) sym_assert(sym_same(out[i], v[i]), "grains round trip restores the slot");
      else sym_assert(sym_same(out[i], before[i]), "grains round trip leaves other slots alone");
    }
  sym_reach("end");
}
