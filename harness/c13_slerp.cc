// C13.dom.slerp: the quaternion slerp that SubductingPlate/Fault::properties use to blend grain orientations between two sections never
// hands acos an argument outside [-1,1] and never divides by sin(0): for ALL doubles (bit precise comparisons; products uninterpreted).
#include "sym.h"
#include "glm/glm.h"
namespace glm = WorldBuilder::glm;
namespace wbv
{
  // not a harness frame (domain checks apply inside); slerp itself is inlined here
  __attribute__((noinline)) glm::quaternion::quat call_slerp(const glm::quaternion::quat &x, const glm::quaternion::quat &y, const double a) { return glm::quaternion::slerp(x, y, a); }
}
extern "C" void h_c13_slerp(void)
{
  const glm::quaternion::quat x(sym_f64("xw"), sym_f64("xx"), sym_f64("xy"), sym_f64("xz")), y(sym_f64("yw"), sym_f64("yx"), sym_f64("yy"), sym_f64("yz"));
  const glm::quaternion::quat r = wbv::call_slerp(x, y, sym_f64("a"));
  sym_out("w", r.w);
  sym_reach("end");
}
