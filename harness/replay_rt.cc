// Native implementation of the harness primitives: concrete inputs are read, in call order, from the file named by
// argv[2] (lines "name kind value": f64 as 16 hex digits of the bit pattern, integers in decimal); argv[1] is the
// harness function, argv[3..] its integer arguments.  Prints one line per sym_out / sym_assert, which the runner
// compares with the executor's concrete-mode trace.
#include <cstdio>
#include <cstdlib>
#include <cstring>
#include <cstdint>
#include <string>
#include <vector>
#include <exception>
#include <dlfcn.h>
#include "sym.h"
namespace {
  struct In { std::string name, kind; unsigned long long bits; };
  std::vector<In> inputs; size_t next = 0; int failures = 0;
  const In &take(const char *name)
  {
    if (next >= inputs.size()) { std::printf("EXHAUSTED %s\n", name); std::exit(3); }
    const In &i = inputs[next++];
    std::string want(name); for (char &c : want) if (c == ' ') c = '_'; if (want.empty()) want = "_";
    if (i.name != want) { std::printf("ORDER wanted %s got %s\n", name, i.name.c_str()); std::exit(3); }
    return i;
  }
  double conc_uf(unsigned id, const double *x, int n)
  {
    static const double c[4] = {1.5, 0.25, -3.0, 0.0625};
    double r = id * 0.7310585786300049 + 0.125;
    for (int i = 0; i < n; ++i) r = r + c[i] * x[i];
    return r;
  }
}
extern "C" {
  double sym_f64(const char *n) { double d; unsigned long long b = take(n).bits; std::memcpy(&d, &b, 8); return d; }
  unsigned sym_u32(const char *n) { return static_cast<unsigned>(take(n).bits); }
  unsigned long sym_u64(const char *n) { return take(n).bits; }
  unsigned char sym_u8(const char *n) { return static_cast<unsigned char>(take(n).bits); }
  bool sym_bool(const char *n) { return take(n).bits & 1; }
  void sym_assume(bool c) { if (!c) { std::printf("ASSUME-FALSE\n"); std::exit(0); } }
  void sym_assert(bool c, const char *what) { std::printf("assert %s %d\n", what, c ? 1 : 0); if (!c) ++failures; }
  bool sym_same(double a, double b) { return std::memcmp(&a, &b, 8) == 0 || (a != a && b != b); }
  bool sym_eq(double a, double b) { if (sym_same(a, b)) return true; double m = 1.0; if (a < 0 ? -a > m : a > m) m = a < 0 ? -a : a; if (b < 0 ? -b > m : b > m) m = b < 0 ? -b : b; double d = a - b; if (d < 0) d = -d; return d <= 1e-9 * m; }
  void sym_reach(const char *) {}
  void sym_out(const char *n, double v) { unsigned long long b; std::memcpy(&b, &v, 8); if (v != v) std::printf("out %s nan\n", n); else std::printf("out %s %016llx\n", n, b); }
  void sym_out_u64(const char *n, unsigned long v) { std::printf("out %s %lu\n", n, v); }
  double sym_uf1(unsigned id, double a) { return conc_uf(id, &a, 1); }
  double sym_uf2(unsigned id, double a, double b) { double x[2] = {a, b}; return conc_uf(id, x, 2); }
  double sym_uf3(unsigned id, double a, double b, double c) { double x[3] = {a, b, c}; return conc_uf(id, x, 3); }
  double sym_uf4(unsigned id, double a, double b, double c, double d) { double x[4] = {a, b, c, d}; return conc_uf(id, x, 4); }
  double sym_ufi(unsigned a, unsigned b, unsigned c, unsigned d, unsigned e) { double x[5] = {double(a), double(b), double(c), double(d), double(e)}; return conc_uf(7, x, 4) + 0.0 * x[4]; }
  void sym_freeze(void) {}
  void sym_allow(const void *) {}
  unsigned sym_writes(void) { return 0; }
  void sym_event(const char *, unsigned long) {}
  void sym_run_ctors(const char *) {}
  bool sym_decide(bool b) { return b; }
}
int main(int argc, char **argv)
{
  if (argc < 3) { std::fprintf(stderr, "usage: %s <harness-function> <inputs-file> [int args]\n", argv[0]); return 2; }
  if (FILE *f = std::fopen(argv[2], "r"))
    {
      char name[256], kind[16], val[64];
      while (std::fscanf(f, "%255s %15s %63s", name, kind, val) == 3)
        inputs.push_back({name, kind, std::strtoull(val, nullptr, std::strcmp(kind, "f64") == 0 ? 16 : 10)});
      std::fclose(f);
    }
  void *h = dlsym(RTLD_DEFAULT, argv[1]);
  if (!h) { std::fprintf(stderr, "no such harness %s\n", argv[1]); return 2; }
  unsigned long a[6] = {0, 0, 0, 0, 0, 0};      // six integer registers in the SysV ABI: harnesses take at most six integer arguments
  if (argc > 9) { std::fprintf(stderr, "too many harness arguments\n"); return 2; }
  for (int i = 3; i < argc; ++i) a[i-3] = std::strtoul(argv[i], nullptr, 10);
  try { reinterpret_cast<void (*)(unsigned long, unsigned long, unsigned long, unsigned long, unsigned long, unsigned long)>(h)(a[0], a[1], a[2], a[3], a[4], a[5]); }
  catch (const std::exception &e) { std::printf("THROW\n"); return failures ? 1 : 0; }
  catch (...) { std::printf("THROW\n"); return failures ? 1 : 0; }
  std::printf("END\n");
  return failures ? 1 : 0;
}
