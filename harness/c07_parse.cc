// C07.bounds: the culling bounds that SubductingPlate/Fault::parse_entries compute really dominate the segment tables
// (this is the representation invariant C07.cut assumes).  The real constructor and parse_entries() run against the
// Parameters stub; coordinates and the default segment list are arbitrary (no section overrides, no models).
#include "common.h"
#include "prm_stub.h"
#include "world_builder/features/subducting_plate.h"
#include "world_builder/features/fault.h"
#include "world_builder/features/subducting_plate_models/temperature/interface.h"
#include "world_builder/features/subducting_plate_models/composition/interface.h"
#include "world_builder/features/subducting_plate_models/grains/interface.h"
#include "world_builder/features/subducting_plate_models/velocity/interface.h"
#include "world_builder/features/fault_models/temperature/interface.h"
#include "world_builder/features/fault_models/composition/interface.h"
#include "world_builder/features/fault_models/grains/interface.h"
#include "world_builder/features/fault_models/velocity/interface.h"
using namespace H;
namespace SPM = WorldBuilder::Features::SubductingPlateModels;
namespace FLM = WorldBuilder::Features::FaultModels;
typedef Objects::Segment<SPM::Temperature::Interface, SPM::Composition::Interface, SPM::Grains::Interface, SPM::Velocity::Interface> SlabSeg;
typedef Objects::Segment<FLM::Temperature::Interface, FLM::Composition::Interface, FLM::Grains::Interface, FLM::Velocity::Interface> FaultSeg;
namespace
{
  unsigned n_coordinates = 2, n_segments = 1;
  // section overrides (C12.sections / C10.sections): k sections, each with its own coordinate number and segment list.  The real
  // code re-reads every section once per coordinate; the stub answers the j-th visit with section j mod k, always with the same values.
  struct SegVals { double len, t0, t1, tr0, tr1, d0, d1; };
  unsigned n_overrides = 0, n_override_segments = 1, visits = 0, segment_calls = 0, current_override = 0;
  SegVals default_vals[3], override_vals[2][3]; unsigned override_coordinate[2];
  SegVals draw() { SegVals v = {sym_f64("segment length"), sym_f64("thickness top"), sym_f64("thickness bottom"), sym_f64("truncation top"), sym_f64("truncation bottom"), sym_f64("dip top"), sym_f64("dip bottom")};
                   sym_assume(v.len >= 0 && v.t0 >= 0 && v.t1 >= 0); return v; }
  bool coordinate_hook(const std::string &name, unsigned &r)
  { if (!(name == "coordinate") || n_overrides == 0) return false; current_override = visits++ % n_overrides; r = override_coordinate[current_override]; return true; }
}
// temperature models for the section obligations (with_models): the feature lists one model, every default segment lists its own, the segments of the
// section overrides inherit the list handed to get_vector (the feature's).  Each stub counts how often its parse_entries() ran.
namespace
{
  bool with_models = false; unsigned model_calls = 0;
  typedef WorldBuilder::Utilities::PointDistanceFromCurvedPlanes PDc;
  template <class I> struct CountT final : I
  {
    unsigned parsed = 0;
    void parse_entries(Parameters &) override { ++parsed; }
    double get_temperature(const Point<3> &, const double, const double, double t, const double, const double, const PDc &, const Features::AdditionalParameters &) const override { return t; }
  };
}
template <class Seg, class A, class B, class C, class D> static std::vector<Seg> segments_from(const SegVals *vals, const unsigned n, const std::vector<std::shared_ptr<A>> *inherited = nullptr, const bool own = false)
{
  if (with_models)
    {
      std::vector<Seg> v;
      for (unsigned i = 0; i < n; ++i)
        {
          std::vector<std::shared_ptr<A>> t;
          if (own) t.emplace_back(new CountT<A>()); else if (inherited) t = *inherited;
          v.emplace_back(vals[i].len, Point<2>(vals[i].t0, vals[i].t1, cartesian), Point<2>(vals[i].tr0, vals[i].tr1, cartesian), Point<2>(vals[i].d0, vals[i].d1, cartesian),
                         t, std::vector<std::shared_ptr<B>>(), std::vector<std::shared_ptr<C>>(), std::vector<std::shared_ptr<D>>());
        }
      return v;
    }
  std::vector<Seg> v;
  for (unsigned i = 0; i < n; ++i)
    v.emplace_back(vals[i].len, Point<2>(vals[i].t0, vals[i].t1, cartesian), Point<2>(vals[i].tr0, vals[i].tr1, cartesian), Point<2>(vals[i].d0, vals[i].d1, cartesian),
                   std::vector<std::shared_ptr<A>>(), std::vector<std::shared_ptr<B>>(), std::vector<std::shared_ptr<C>>(), std::vector<std::shared_ptr<D>>());
  return v;
}
template <class Seg, class A, class B, class C, class D> static std::vector<Seg> make_segments(const std::vector<std::shared_ptr<A>> *inherited = nullptr)
{
  if (n_overrides > 0)
    return segment_calls++ == 0 ? segments_from<Seg, A, B, C, D>(default_vals, n_segments, inherited, true) : segments_from<Seg, A, B, C, D>(override_vals[current_override], n_override_segments, inherited, false);
  std::vector<Seg> v;
  for (unsigned i = 0; i < n_segments; ++i)
    {
      const double len = sym_f64("segment length"), t0 = sym_f64("thickness top"), t1 = sym_f64("thickness bottom");
      sym_assume(len >= 0 && t0 >= 0 && t1 >= 0);
      v.emplace_back(len, Point<2>(t0, t1, cartesian), Point<2>(sym_f64("truncation top"), sym_f64("truncation bottom"), cartesian), Point<2>(sym_f64("dip top"), sym_f64("dip bottom"), cartesian),
                     std::vector<std::shared_ptr<A>>(), std::vector<std::shared_ptr<B>>(), std::vector<std::shared_ptr<C>>(), std::vector<std::shared_ptr<D>>());
    }
  return v;
}
extern "C" {
  void __wrap__ZN12WorldBuilder8Features9Interface15get_coordinatesERKNSt7__cxx1112basic_stringIcSt11char_traitsIcESaIcEEERNS_10ParametersENS_16CoordinateSystemE
  (Features::Interface *self, const std::string *, Parameters *, CoordinateSystem cs)
  {
    self->coordinates.clear();
    for (unsigned i = 0; i < n_coordinates; ++i) self->coordinates.emplace_back(sym_f64("coordinate x"), sym_f64("coordinate y"), cs);
    self->original_number_of_coordinates = n_coordinates;
  }
  size_t __wrap__ZN12WorldBuilder8Features16FeatureUtilities17add_vector_uniqueERSt6vectorINSt7__cxx1112basic_stringIcSt11char_traitsIcESaIcEEESaIS8_EERKS8_(std::vector<std::string> *, const std::string *) { return 3; }
#define NO_MODELS(NS, KIND) bool __wrap__ZN12WorldBuilder10Parameters19get_shared_pointersINS_8Features##NS##KIND##9InterfaceEEEbRKNSt7__cxx1112basic_stringIcSt11char_traitsIcESaIcEEERSt6vectorISt10shared_ptrIT_ESaISH_EE(Parameters *, const std::string *, void *) { return false; }
  NO_MODELS(21SubductingPlateModels, 11Composition) NO_MODELS(21SubductingPlateModels, 6Grains) NO_MODELS(21SubductingPlateModels, 8Velocity)
  NO_MODELS(11FaultModels, 11Composition) NO_MODELS(11FaultModels, 6Grains) NO_MODELS(11FaultModels, 8Velocity)
  // temperature models: with_models => the first request (feature level) delivers one model, later requests (section level) none
  bool __wrap__ZN12WorldBuilder10Parameters19get_shared_pointersINS_8Features21SubductingPlateModels11Temperature9InterfaceEEEbRKNSt7__cxx1112basic_stringIcSt11char_traitsIcESaIcEEERSt6vectorISt10shared_ptrIT_ESaISH_EE(Parameters *, const std::string *, std::vector<std::shared_ptr<SPM::Temperature::Interface>> *v)
  { v->resize(0); if (!with_models || model_calls++ > 0) return false; v->emplace_back(new CountT<SPM::Temperature::Interface>()); return true; }
  bool __wrap__ZN12WorldBuilder10Parameters19get_shared_pointersINS_8Features11FaultModels11Temperature9InterfaceEEEbRKNSt7__cxx1112basic_stringIcSt11char_traitsIcESaIcEEERSt6vectorISt10shared_ptrIT_ESaISH_EE(Parameters *, const std::string *, std::vector<std::shared_ptr<FLM::Temperature::Interface>> *v)
  { v->resize(0); if (!with_models || model_calls++ > 0) return false; v->emplace_back(new CountT<FLM::Temperature::Interface>()); return true; }
  bool __wrap__ZN12WorldBuilder10Parameters19get_unique_pointersINS_8Features15SubductingPlateEEEbRKNSt7__cxx1112basic_stringIcSt11char_traitsIcESaIcEEERSt6vectorISt10unique_ptrIT_St14default_deleteISE_EESaISH_EE(Parameters *, const std::string *, std::vector<std::unique_ptr<Features::SubductingPlate>> *v) { v->resize(n_overrides); return n_overrides > 0; }
  bool __wrap__ZN12WorldBuilder10Parameters19get_unique_pointersINS_8Features5FaultEEEbRKNSt7__cxx1112basic_stringIcSt11char_traitsIcESaIcEEERSt6vectorISt10unique_ptrIT_St14default_deleteISE_EESaISH_EE(Parameters *, const std::string *, std::vector<std::unique_ptr<Features::Fault>> *v) { v->resize(n_overrides); return n_overrides > 0; }
}
extern "C" Point<2> __wrap__ZN12WorldBuilder10Parameters3getINS_5PointILj2EEEEET_RKNSt7__cxx1112basic_stringIcSt11char_traitsIcESaIcEEE(Parameters *, const std::string *)
{ return Point<2>(sym_f64("dip point x"), sym_f64("dip point y"), cartesian); }
extern "C" std::vector<SlabSeg> __wrap__ZN12WorldBuilder10Parameters10get_vectorINS_7Objects7SegmentINS_8Features21SubductingPlateModels11Temperature9InterfaceENS5_11Composition9InterfaceENS5_6Grains9InterfaceENS5_8Velocity9InterfaceEEES7_S9_SB_SD_EESt6vectorIT_SaISG_EERKNSt7__cxx1112basic_stringIcSt11char_traitsIcESaIcEEERSF_ISt10shared_ptrIT0_ESaIST_EERSF_ISR_IT1_ESaISY_EERSF_ISR_IT2_ESaIS13_EERSF_ISR_IT3_ESaIS18_EE
(Parameters *, const std::string *, std::vector<std::shared_ptr<SPM::Temperature::Interface>> *dT, void *, void *, void *)
{ return make_segments<SlabSeg, SPM::Temperature::Interface, SPM::Composition::Interface, SPM::Grains::Interface, SPM::Velocity::Interface>(dT); }
extern "C" std::vector<FaultSeg> __wrap__ZN12WorldBuilder10Parameters10get_vectorINS_7Objects7SegmentINS_8Features11FaultModels11Temperature9InterfaceENS5_11Composition9InterfaceENS5_6Grains9InterfaceENS5_8Velocity9InterfaceEEES7_S9_SB_SD_EESt6vectorIT_SaISG_EERKNSt7__cxx1112basic_stringIcSt11char_traitsIcESaIcEEERSF_ISt10shared_ptrIT0_ESaIST_EERSF_ISR_IT1_ESaISY_EERSF_ISR_IT2_ESaIS13_EERSF_ISR_IT3_ESaIS18_EE
(Parameters *, const std::string *, std::vector<std::shared_ptr<FLM::Temperature::Interface>> *dT, void *, void *, void *)
{ return make_segments<FaultSeg, FLM::Temperature::Interface, FLM::Composition::Interface, FLM::Grains::Interface, FLM::Velocity::Interface>(dT); }

template <class F> static void check_bounds(F *f, const std::vector<std::vector<Point<2>>> &thick, const std::vector<std::vector<double>> &lens, const std::vector<double> &total, const double max_thick, const double max_len)
{
  sym_assert(thick.size() == n_coordinates && lens.size() == n_coordinates && total.size() == n_coordinates, "one segment table per coordinate");
  for (unsigned s = 0; s < n_coordinates && s < thick.size(); ++s)
    {
      double sum = 0;
      sym_assert(thick[s].size() == n_segments && lens[s].size() == n_segments, "every coordinate gets the default segment list");
      for (unsigned g = 0; g < n_segments && g < thick[s].size(); ++g)
        {
          sym_assert(max_thick >= thick[s][g][0] && max_thick >= thick[s][g][1], "the stored maximum thickness dominates both ends of every segment");
          sum += lens[s][g];
        }
      sym_assert(sym_eq(total[s], sum) && max_len >= total[s], "total lengths are the sums of the segment lengths and the stored maximum dominates them");
    }
  const auto &box = f->surface_bounding_box.get_boundary_points();
  const double buffer = max_thick + max_len;
  for (unsigned s = 0; s < n_coordinates; ++s)
    sym_assert(box.first[0] <= f->coordinates[s][0] - buffer && box.first[1] <= f->coordinates[s][1] - buffer && box.second[0] >= f->coordinates[s][0] + buffer && box.second[1] >= f->coordinates[s][1] + buffer,
               "Cartesian: the bounding box contains every coordinate extended by maximum thickness + maximum total length");
  sym_reach("end");
}
extern "C" void h_c07_bounds_slab(unsigned long nc, unsigned long ns)
{
  n_coordinates = unsigned(nc); n_segments = unsigned(ns);
  World *w = make_world(0);
  auto *f = new Features::SubductingPlate(w);
  f->parse_entries(w->parameters);
  check_bounds(f, f->slab_segment_thickness, f->slab_segment_lengths, f->total_slab_length, f->maximum_slab_thickness, f->maximum_total_slab_length);
}
extern "C" void h_c07_bounds_fault(unsigned long nc, unsigned long ns)
{
  n_coordinates = unsigned(nc); n_segments = unsigned(ns);
  World *w = make_world(0);
  auto *f = new Features::Fault(w);
  f->parse_entries(w->parameters);
  check_bounds(f, f->fault_segment_thickness, f->fault_segment_lengths, f->total_fault_length, f->maximum_fault_thickness, f->maximum_total_fault_length);
}

// C12.sections / C10.sections: section overrides.  k sections with arbitrary coordinate numbers, each with m segments; the default list has ns.
// A section for a coordinate that does not exist, or with a different number of segments, must be rejected by an exception (and nothing may be
// written out of bounds - the executor checks every access); otherwise every coordinate carries its own section's values (the last section that
// names it), the default list elsewhere, and the culling bounds of C07 still dominate.
template <class F, class TI> static void sections(const unsigned nc, const unsigned ns, const unsigned k, const unsigned m, const bool models, const char *kind,
                                        std::vector<std::vector<Point<2>>> F::*thick, std::vector<std::vector<double>> F::*lens, std::vector<double> F::*total, double F::*max_thick, double F::*max_len,
                                        std::vector<std::vector<Point<2>>> F::*trunc, std::vector<std::vector<Point<2>>> F::*angles)
{
  n_coordinates = nc; n_segments = ns; n_overrides = k; n_override_segments = m; visits = 0; segment_calls = 0; with_models = models; model_calls = 0;
  prm.u32_hook = coordinate_hook;
  for (unsigned g = 0; g < ns; ++g) default_vals[g] = draw();
  for (unsigned s = 0; s < k; ++s) { override_coordinate[s] = sym_u32("section coordinate"); for (unsigned g = 0; g < m; ++g) override_vals[s][g] = draw(); }
  World *w = make_world(0);
  auto *f = new F(w);
  bool threw = false;
  try { f->parse_entries(w->parameters); } catch (...) { threw = true; }
  bool bad_coordinate = false; for (unsigned s = 0; s < k; ++s) if (override_coordinate[s] >= nc) bad_coordinate = true;
  if (bad_coordinate) { sym_assert(threw, "a section for a coordinate that does not exist is rejected with an exception"); sym_reach("end-rejected"); return; }
  if (m != ns) { sym_assert(threw, "a section whose number of segments differs from the default list is rejected with an exception"); sym_reach("end-rejected"); return; }
  sym_assert(!threw, "consistent sections are accepted");
  if (threw) return;
  for (unsigned j = 0; j < nc; ++j)
    {
      const SegVals *vals = default_vals; for (unsigned s = 0; s < k; ++s) if (override_coordinate[s] == j) vals = override_vals[s];
      for (unsigned g = 0; g < ns; ++g)
        sym_assert(sym_eq((f->*lens)[j][g], vals[g].len) && sym_eq((f->*thick)[j][g][0], vals[g].t0) && sym_eq((f->*thick)[j][g][1], vals[g].t1)
                   && sym_eq((f->*trunc)[j][g][0], vals[g].tr0) && sym_eq((f->*trunc)[j][g][1], vals[g].tr1)
                   && sym_eq((f->*angles)[j][g][0], vals[g].d0 * (Consts::PI/180)) && sym_eq((f->*angles)[j][g][1], vals[g].d1 * (Consts::PI/180)),
                   "every coordinate carries the segments of its own section, the default segment list when no section names it");
    }
  if (models)
    {
      // every model object that some segment of some coordinate uses has had its parse_entries() run (a model that was never parsed is silently inactive)
      bool all_parsed = true; unsigned seen_models = 0;
      for (const auto &table : f->segment_vector) for (const auto &seg : table) for (const auto &mp : seg.temperature_systems)
        { ++seen_models; all_parsed = all_parsed && static_cast<const CountT<TI> *>(mp.get())->parsed >= 1; }
      sym_assert(seen_models == nc * ns && all_parsed, "every model a segment uses - its own or an inherited one - has been parsed");
      sym_reach("models parsed");
    }
  check_bounds(f, f->*thick, f->*lens, f->*total, f->*max_thick, f->*max_len);
}
extern "C" void h_c12_sections(unsigned long fault, unsigned long nc, unsigned long ns, unsigned long k, unsigned long m, unsigned long models)
{
  if (fault) sections<Features::Fault, FLM::Temperature::Interface>(unsigned(nc), unsigned(ns), unsigned(k), unsigned(m), models != 0, "fault", &Features::Fault::fault_segment_thickness, &Features::Fault::fault_segment_lengths, &Features::Fault::total_fault_length,
                                       &Features::Fault::maximum_fault_thickness, &Features::Fault::maximum_total_fault_length, &Features::Fault::fault_segment_top_truncation, &Features::Fault::fault_segment_angles);
  else sections<Features::SubductingPlate, SPM::Temperature::Interface>(unsigned(nc), unsigned(ns), unsigned(k), unsigned(m), models != 0, "slab", &Features::SubductingPlate::slab_segment_thickness, &Features::SubductingPlate::slab_segment_lengths, &Features::SubductingPlate::total_slab_length,
                                            &Features::SubductingPlate::maximum_slab_thickness, &Features::SubductingPlate::maximum_total_slab_length, &Features::SubductingPlate::slab_segment_top_truncation, &Features::SubductingPlate::slab_segment_angles);
}
