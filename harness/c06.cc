// C06 (membership, same arguments), C07.cut (culling shortcuts), C10.interp (section/segment interpolation, locality)
// for the line features SubductingPlate and Fault.  The geometric kernel distance_point_from_curved_planes is an
// environment stub returning an arbitrary result (optionally under the planar-construction contract); segment
// models are stubs (uninterpreted functions of the incoming value) that record what they were handed.
#include "common.h"
#include "world_builder/features/subducting_plate.h"
#include "world_builder/features/fault.h"
#include "world_builder/features/subducting_plate_models/temperature/interface.h"
#include "world_builder/features/subducting_plate_models/composition/interface.h"
#include "world_builder/features/subducting_plate_models/grains/interface.h"
#include "world_builder/features/subducting_plate_models/velocity/interface.h"
#include "world_builder/features/fault_models/temperature/interface.h"
#include "world_builder/features/fault_models/composition/interface.h"
#include "world_builder/features/fault_models/grains/interface.h"
#include "world_builder/features/fault_models/velocity/interface.h"
#include "world_builder/utilities.h"
#include <cmath>
using namespace H;
typedef WorldBuilder::Utilities::PointDistanceFromCurvedPlanes PD;
namespace
{
  struct Kernel
  {
    unsigned calls; bool contract; unsigned n_sections, n_segments;
    // arguments seen
    const void *check_point, *natural, *point_list, *lengths, *angles, *cs, *bezier; double ref_x, ref_y, start_radius; bool only_positive;
    const void *a_point_list[2], *a_lengths[2], *a_angles[2], *a_bezier[2]; double a_ref_x[2], a_ref_y[2], a_start_radius[2]; bool a_only_positive[2]; double a_px[2], a_py[2], a_pz[2];
    // result returned
    double d_perp, d_along, f_section, f_segment; size_t section, segment; double ctp_x, ctp_y;
  } K;
  struct ModelSeen { unsigned calls; double fmin, fmax, max_len, thickness, d_perp, d_along; } MS;
}
extern "C" PD __wrap__ZN12WorldBuilder9Utilities33distance_point_from_curved_planesERKNS_5PointILj3EEERKNS_7Objects17NaturalCoordinateERKNS1_ILj2EEERKSt6vectorIS9_SaIS9_EERKSC_ISC_IdSaIdEESaISI_EERKSC_ISE_SaISE_EEdRKSt10unique_ptrINS_17CoordinateSystems9InterfaceESt14default_deleteIST_EEbRKNS5_11BezierCurveE
(const Point<3> *check_point, const Objects::NaturalCoordinate *natural, const Point<2> *reference_point, const std::vector<Point<2>> *point_list,
 const std::vector<std::vector<double>> *lengths, const std::vector<std::vector<Point<2>>> *angles, const double start_radius,
 const std::unique_ptr<CoordinateSystems::Interface> *cs, const bool only_positive, const Objects::BezierCurve *bezier)
{
  const unsigned c = K.calls < 2 ? K.calls : 1;
  K.a_point_list[c] = point_list; K.a_lengths[c] = lengths; K.a_angles[c] = angles; K.a_bezier[c] = bezier; K.a_ref_x[c] = (*reference_point)[0]; K.a_ref_y[c] = (*reference_point)[1];
  K.a_start_radius[c] = start_radius; K.a_only_positive[c] = only_positive; K.a_px[c] = (*check_point)[0]; K.a_py[c] = (*check_point)[1]; K.a_pz[c] = (*check_point)[2];
  ++K.calls;
  PD r(cartesian);
  if (c == 0)
    {
      K.d_perp = sym_f64("d_perp"); K.d_along = sym_f64("d_along"); K.f_section = sym_f64("f_section"); K.f_segment = sym_f64("f_segment");
      K.section = sym_u64("section"); K.segment = sym_u64("segment"); K.ctp_x = sym_f64("ctp_x"); K.ctp_y = sym_f64("ctp_y");
      // what the kernel guarantees about indices and fractions
      sym_assume(K.section < K.n_sections - 1 && K.segment < K.n_segments && K.f_section >= 0 && K.f_section <= 1 && K.f_segment >= 0 && K.f_segment <= 1);
    }
  r.distance_from_plane = K.d_perp; r.distance_along_plane = K.d_along; r.fraction_of_section = K.f_section; r.fraction_of_segment = K.f_segment;
  r.section = K.section; r.segment = K.segment; r.average_angle = 0.5; r.depth_reference_surface = 0.0;
  r.closest_trench_point = Point<3>(K.ctp_x, K.ctp_y, 0.0, cartesian);
  return r;
}
namespace
{
  template <class I> struct LT final : I
  {
    unsigned id;
    void parse_entries(Parameters &) override {}
    double get_temperature(const Point<3> &, const double depth, const double, double t, const double fmin, const double fmax, const PD &d, const Features::AdditionalParameters &ap) const override
    { ++MS.calls; MS.fmin = fmin; MS.fmax = fmax; MS.max_len = ap.total_local_segment_length; MS.thickness = ap.local_thickness; MS.d_perp = d.distance_from_plane; MS.d_along = d.distance_along_plane; return sym_uf2(100+id, depth, t); }
  };
  template <class I> struct LC final : I
  {
    unsigned id;
    void parse_entries(Parameters &) override {}
    double get_composition(const Point<3> &, const double depth, const unsigned int n, double c, const double, const double, const PD &, const Features::AdditionalParameters &) const override
    { return sym_uf2(200+id+1000*n, depth, c); }
  };
  template <class I> struct LV final : I
  {
    unsigned id;
    void parse_entries(Parameters &) override {}
    std::array<double,3> get_velocity(const Point<3> &, const double depth, const double, std::array<double,3> v, const double, const double, const PD &, const Features::AdditionalParameters &) const override
    { return {{sym_uf2(500+id, depth, v[0]), sym_uf2(600+id, depth, v[1]), sym_uf2(700+id, depth, v[2])}}; }
  };

  struct SlabTr
  {
    typedef Features::SubductingPlate F;
    typedef Features::SubductingPlateModels::Temperature::Interface TI; typedef Features::SubductingPlateModels::Composition::Interface CI;
    typedef Features::SubductingPlateModels::Grains::Interface GI; typedef Features::SubductingPlateModels::Velocity::Interface VI;
    static std::vector<std::vector<double>> &lengths(F *f) { return f->slab_segment_lengths; }
    static std::vector<std::vector<Point<2>>> &thickness(F *f) { return f->slab_segment_thickness; }
    static std::vector<std::vector<Point<2>>> &top_truncation(F *f) { return f->slab_segment_top_truncation; }
    static std::vector<std::vector<Point<2>>> &angles(F *f) { return f->slab_segment_angles; }
    static std::vector<double> &total_length(F *f) { return f->total_slab_length; }
    static double &max_total_length(F *f) { return f->maximum_total_slab_length; }
    static double &max_thickness(F *f) { return f->maximum_slab_thickness; }
    static const bool fault = false;
  };
  struct FaultTr
  {
    typedef Features::Fault F;
    typedef Features::FaultModels::Temperature::Interface TI; typedef Features::FaultModels::Composition::Interface CI;
    typedef Features::FaultModels::Grains::Interface GI; typedef Features::FaultModels::Velocity::Interface VI;
    static std::vector<std::vector<double>> &lengths(F *f) { return f->fault_segment_lengths; }
    static std::vector<std::vector<Point<2>>> &thickness(F *f) { return f->fault_segment_thickness; }
    static std::vector<std::vector<Point<2>>> &top_truncation(F *f) { return f->fault_segment_top_truncation; }
    static std::vector<std::vector<Point<2>>> &angles(F *f) { return f->fault_segment_angles; }
    static std::vector<double> &total_length(F *f) { return f->total_fault_length; }
    static double &max_total_length(F *f) { return f->maximum_total_fault_length; }
    static double &max_thickness(F *f) { return f->maximum_fault_thickness; }
    static const bool fault = true;
  };

  // mode 0: membership + interpolation + frame (culling bounds assumed wide);  1: culling soundness under the planar contract;  2: same arguments in distance_to_feature_plane
  template <class Tr> void line_feature(unsigned long mode, unsigned long nsec, unsigned long nseg, unsigned long models)
  {
    typedef typename Tr::F F;
    alignas(F) static unsigned char fbuf[sizeof(F)];
    World *w = make_world(0);
    F *f = reinterpret_cast<F *>(fbuf);
    f->world = w; f->tag_index = 7;
    new (&f->coordinates) std::vector<Point<2>>();
    new (&Tr::lengths(f)) std::vector<std::vector<double>>(nsec, std::vector<double>(nseg));
    new (&Tr::thickness(f)) std::vector<std::vector<Point<2>>>(nsec, std::vector<Point<2>>(nseg, Point<2>(0, 0, cartesian)));
    new (&Tr::top_truncation(f)) std::vector<std::vector<Point<2>>>(nsec, std::vector<Point<2>>(nseg, Point<2>(0, 0, cartesian)));
    new (&Tr::angles(f)) std::vector<std::vector<Point<2>>>(nsec, std::vector<Point<2>>(nseg, Point<2>(0, 0, cartesian)));
    new (&Tr::total_length(f)) std::vector<double>(nsec);
    new (&f->segment_vector) decltype(f->segment_vector)();
    f->starting_depth = sym_f64("min depth"); f->maximum_depth = sym_f64("max depth");
    sym_assume(f->starting_depth >= 0 && f->maximum_depth >= f->starting_depth);
    // representation invariant established by parse_entries: the stored maxima dominate the tables, the box contains the coordinate box extended by the buffer
    Tr::max_total_length(f) = sym_f64("max total length"); Tr::max_thickness(f) = sym_f64("max thickness");
    const double minx = sym_f64("min_along_x"), maxx = sym_f64("max_along_x"), miny = sym_f64("min_along_y"), maxy = sym_f64("max_along_y");
    for (unsigned s = 0; s < nsec; ++s)
      {
        f->coordinates.emplace_back(sym_f64("cx"), sym_f64("cy"), cartesian);
        sym_assume(f->coordinates[s][0] >= minx && f->coordinates[s][0] <= maxx && f->coordinates[s][1] >= miny && f->coordinates[s][1] <= maxy);
        double total = 0;
        typename std::remove_reference<decltype(f->segment_vector[0])>::type row;
        for (unsigned g = 0; g < nseg; ++g)
          {
            const double len = sym_f64("len"), t0 = sym_f64("thick0"), t1 = sym_f64("thick1"), tr0 = sym_f64("trunc0"), tr1 = sym_f64("trunc1");
            sym_assume(len >= 0 && t0 >= 0 && t1 >= 0 && tr0 >= 0 && tr1 >= 0);        // schema: non-negative
            Tr::lengths(f)[s][g] = len; Tr::thickness(f)[s][g] = Point<2>(t0, t1, cartesian); Tr::top_truncation(f)[s][g] = Point<2>(tr0, tr1, cartesian);
            Tr::angles(f)[s][g] = Point<2>(sym_f64("dip0"), sym_f64("dip1"), cartesian);
            total += len; sym_assume(t0 <= Tr::max_thickness(f) && t1 <= Tr::max_thickness(f));
            std::vector<std::shared_ptr<typename Tr::TI>> ts; std::vector<std::shared_ptr<typename Tr::CI>> cs; std::vector<std::shared_ptr<typename Tr::GI>> gs; std::vector<std::shared_ptr<typename Tr::VI>> vs;
            for (unsigned q = 0; q < models; ++q)
              {
                auto *mt = new LT<typename Tr::TI>(); mt->id = 10*s + g + 50*q; ts.emplace_back(mt);
                auto *mc = new LC<typename Tr::CI>(); mc->id = 10*s + g + 50*q; cs.emplace_back(mc);
                auto *mv = new LV<typename Tr::VI>(); mv->id = 10*s + g + 50*q; vs.emplace_back(mv);
              }
            row.emplace_back(len, Tr::thickness(f)[s][g], Tr::top_truncation(f)[s][g], Tr::angles(f)[s][g], ts, cs, gs, vs);
          }
        f->segment_vector.push_back(row);
        Tr::total_length(f)[s] = total; sym_assume(total <= Tr::max_total_length(f));
      }
    const double buffer = Tr::max_thickness(f) + Tr::max_total_length(f);
    new (&f->surface_bounding_box) BoundingBox<2>(std::make_pair(Point<2>(minx - buffer, miny - buffer, cartesian), Point<2>(maxx + buffer, maxy + buffer, cartesian)));
    f->reference_point = Point<2>(sym_f64("refx"), sym_f64("refy"), cartesian);
    K = Kernel(); K.n_sections = unsigned(nsec); K.n_segments = unsigned(nseg); MS = ModelSeen();

    const Point<3> pos(sym_f64("x"), sym_f64("y"), sym_f64("z"), cartesian);
    const Objects::NaturalCoordinate nc(pos, *w->parameters.coordinate_system);
    const double depth = sym_f64("depth"), T0 = sym_f64("T0"), C0 = sym_f64("C0"), g = sym_f64("gravity");
    const unsigned comp = sym_u32("composition"); sym_assume(comp < 3);
    // velocity first, so that no entry other than it sits at the slot equal to its index in the request
    const std::vector<Prop> props = {{{5,0,0}}, {{1,0,0}}, {{4,0,0}}, {{2,comp,0}}};
    const std::vector<size_t> entry = {0, 3, 4, 5};
    std::vector<double> out = {sym_f64("v0"), sym_f64("v1"), sym_f64("v2"), T0, -1.0, C0, sym_f64("guard")};
    const std::vector<double> old = out;

    if (mode == 2)
      {
        f->F::properties(pos, nc, depth, props, g, entry, out);
        const unsigned calls_before = K.calls;
        const Objects::PlaneDistances pdist = f->F::distance_to_feature_plane(pos, nc, depth);
        sym_assert(K.calls == calls_before + 1, "the public distance query evaluates the kernel once");
        if (calls_before == 1)
          sym_assert(K.a_point_list[0] == K.a_point_list[1] && K.a_lengths[0] == K.a_lengths[1] && K.a_angles[0] == K.a_angles[1] && K.a_bezier[0] == K.a_bezier[1]
                     && sym_eq(K.a_ref_x[0], K.a_ref_x[1]) && sym_eq(K.a_ref_y[0], K.a_ref_y[1]) && sym_eq(K.a_start_radius[0], K.a_start_radius[1]) && (Tr::fault || K.a_only_positive[0] == K.a_only_positive[1])
                     && sym_eq(K.a_px[0], K.a_px[1]) && sym_eq(K.a_py[0], K.a_py[1]) && sym_eq(K.a_pz[0], K.a_pz[1]),
                     "distance_to_feature_plane calls the kernel with the same arguments as properties");
        sym_assert(K.a_point_list[K.calls > 1] == &f->coordinates && K.a_lengths[K.calls > 1] == &Tr::lengths(f) && K.a_angles[K.calls > 1] == &Tr::angles(f) && (Tr::fault || !K.a_only_positive[K.calls > 1])
                   && sym_eq(K.a_start_radius[K.calls > 1], nc.get_depth_coordinate() + depth - f->starting_depth), "kernel gets the feature's own tables, dip side flag and start radius");
        sym_assert(sym_eq(pdist.get_distance_from_surface(), K.d_perp) && sym_eq(pdist.get_distance_along_surface(), K.d_along), "the public distance query reports the kernel's two distances unchanged");
        sym_reach("end"); return;
      }
    if (mode == 0)
      {
        // culling bounds wide enough (their soundness is mode 1 = C07.cut)
        sym_assume(depth <= Tr::max_total_length(f) + Tr::max_thickness(f));
        sym_assume(pos[0] >= minx - buffer && pos[0] <= maxx + buffer && pos[1] >= miny - buffer && pos[1] <= maxy + buffer);
      }
    f->F::properties(pos, nc, depth, props, g, entry, out);
    const bool painted = out[4] == 7.0;
    sym_assert(out[4] == 7.0 || out[4] == -1.0, "tag is own index or untouched");
    sym_assert(sym_eq(out[6], old[6]), "nothing outside the requested slots is written");

    // ---- oracle: documented bilinear interpolation between the two adjacent sections, then along the segment
    const bool depth_ok = depth <= f->maximum_depth && depth >= f->starting_depth;
    if (!depth_ok) { sym_assert(!painted && sym_eq(out[3], T0) && sym_eq(out[5], C0), "outside [min depth, max depth] the feature has no effect"); sym_reach("end-depth"); return; }
    if (K.calls == 0)
      {
        // discarded by a shortcut before the kernel was consulted
        if (mode == 0) sym_assert(false, "with wide culling bounds the kernel must be consulted");
        sym_reach("end-culled");
        if (mode == 1)
          {
            // C07.cut: under the planar-construction contract no member may be discarded.  A point that would be a member has some kernel result
            // (section, segment, fractions, distances) satisfying the contract and the membership condition: show that none exists.
            const double d_perp = sym_f64("w_d_perp"), d_along = sym_f64("w_d_along"), fs = sym_f64("w_f_section"), fg = sym_f64("w_f_segment");
            const size_t cs = sym_u64("w_section"), sg = sym_u64("w_segment"); const double cx = sym_f64("w_ctp_x"), cy = sym_f64("w_ctp_y");
            sym_assume(cs < nsec - 1 && sg < nseg && fs >= 0 && fs <= 1 && fg >= 0 && fg <= 1);
            const double th_up = Tr::thickness(f)[cs][sg][0] + fs * (Tr::thickness(f)[cs+1][sg][0] - Tr::thickness(f)[cs][sg][0]);
            const double th_dn = Tr::thickness(f)[cs][sg][1] + fs * (Tr::thickness(f)[cs+1][sg][1] - Tr::thickness(f)[cs][sg][1]);
            const double th = th_up + fg * (th_dn - th_up);
            const double L = Tr::total_length(f)[cs] + fs * (Tr::total_length(f)[cs+1] - Tr::total_length(f)[cs]);
            const double ad = d_perp < 0 ? -d_perp : d_perp;
            const bool member = th >= 1e-9 && (Tr::fault ? (ad <= th * 0.5 && d_along >= 0 && d_along <= L) : (d_perp >= 0 && d_perp <= th && d_along >= 0 && d_along <= L));    // zero local thickness = no effect
            // planar construction: going d_along along the surface and d_perp off it from the trench at min depth moves at most d_along+|d_perp| down and sideways
            const bool contract = depth - f->starting_depth <= d_along + ad && cx >= minx && cx <= maxx && cy >= miny && cy <= maxy
                                  && pos[0] - cx <= d_along + ad && cx - pos[0] <= d_along + ad && pos[1] - cy <= d_along + ad && cy - pos[1] <= d_along + ad;
            sym_assert(!(member && contract), "a shortcut (depth cut-off, bounding box) never discards a point that satisfies the membership definition");
          }
        return;
      }
    const size_t cs = K.section, sg = K.segment; const double fs = K.f_section, fg = K.f_segment;
    const double th_up = Tr::thickness(f)[cs][sg][0] + fs * (Tr::thickness(f)[cs+1][sg][0] - Tr::thickness(f)[cs][sg][0]);
    const double th_dn = Tr::thickness(f)[cs][sg][1] + fs * (Tr::thickness(f)[cs+1][sg][1] - Tr::thickness(f)[cs][sg][1]);
    const double th = th_up + fg * (th_dn - th_up);
    const double tr_up = Tr::top_truncation(f)[cs][sg][0] + fs * (Tr::top_truncation(f)[cs+1][sg][0] - Tr::top_truncation(f)[cs][sg][0]);
    const double tr_dn = Tr::top_truncation(f)[cs][sg][1] + fs * (Tr::top_truncation(f)[cs+1][sg][1] - Tr::top_truncation(f)[cs][sg][1]);
    const double tr = tr_up + fg * (tr_dn - tr_up);
    const double L = Tr::total_length(f)[cs] + fs * (Tr::total_length(f)[cs+1] - Tr::total_length(f)[cs]);
    const double ad = K.d_perp < 0 ? -K.d_perp : K.d_perp;
    if (Tr::fault) sym_assume(K.d_along != 0);                       // the trace itself (d_along = 0): the implementation excludes it, the statement is not explicit; not asserted
    sym_assume(th >= 1e-9);                                          // zero local thickness is the "no effect" case, asserted separately below
    const bool member = Tr::fault ? (ad <= th * 0.5 && K.d_along >= 0 && K.d_along <= L && th >= tr)
                        : (K.d_perp >= tr && K.d_perp <= th && K.d_along >= 0 && K.d_along <= L);
    sym_assert(painted == member, "a point belongs to the feature iff its signed distance is within the interpolated thickness/top truncation and its along-surface distance within the interpolated length");
    if (!painted) { sym_assert(sym_eq(out[3], T0) && sym_eq(out[5], C0) && sym_eq(out[0], old[0]), "a feature that does not contain the point changes nothing"); sym_reach("end-out"); return; }
    // interpolation of model results between the two adjacent sections only (C10)
    double Tc = T0, Tn = T0, Cc = C0, Cn = C0; double Vc[3] = {old[0], old[1], old[0] + 2}, Vn[3] = {old[0], old[1], old[0] + 2};
    for (unsigned q = 0; q < models; ++q)
      {
        Tc = sym_uf2(100 + 10*unsigned(cs) + unsigned(sg) + 50*q, depth, Tc); Tn = sym_uf2(100 + 10*unsigned(cs+1) + unsigned(sg) + 50*q, depth, Tn);
        Cc = sym_uf2(200 + 10*unsigned(cs) + unsigned(sg) + 50*q + 1000*comp, depth, Cc); Cn = sym_uf2(200 + 10*unsigned(cs+1) + unsigned(sg) + 50*q + 1000*comp, depth, Cn);
        for (unsigned c = 0; c < 3; ++c) { Vc[c] = sym_uf2(500 + 100*c + 10*unsigned(cs) + unsigned(sg) + 50*q, depth, Vc[c]); Vn[c] = sym_uf2(500 + 100*c + 10*unsigned(cs+1) + unsigned(sg) + 50*q, depth, Vn[c]); }
      }
    sym_assert(sym_eq(out[3], Tc + fs * (Tn - Tc)), "temperature is the section-fraction blend of the two adjacent sections' model chains");
    sym_assert(sym_eq(out[5], Cc + fs * (Cn - Cc)), "composition is the section-fraction blend of the two adjacent sections' model chains");
    if (models) for (unsigned c = 0; c < 2; ++c) sym_assert(sym_eq(out[0+c], Vc[c] + fs * (Vn[c] - Vc[c])), "velocity is the section-fraction blend of the two adjacent sections' model chains");
    if (models)
      sym_assert(sym_eq(MS.max_len, L) && sym_eq(MS.thickness, th) && sym_eq(MS.fmin, f->starting_depth) && sym_eq(MS.fmax, f->maximum_depth) && sym_eq(MS.d_perp, K.d_perp) && sym_eq(MS.d_along, K.d_along),
                 "models receive the interpolated local length and thickness, the feature's depth range and the kernel distances");
    sym_reach("end");
  }
}
extern "C" void h_c06_slab(unsigned long mode, unsigned long nsec, unsigned long nseg, unsigned long models) { line_feature<SlabTr>(mode, nsec, nseg, models); }
extern "C" void h_c06_fault(unsigned long mode, unsigned long nsec, unsigned long nseg, unsigned long models) { line_feature<FaultTr>(mode, nsec, nseg, models); }
