// C04.plume: plume membership (cross-section table, interpolation, head ellipsoid).  fraction_from_ellipse_center is a
// recording stub here (its own formula is C04.ellipse); exact-real reading.
#include "common.h"
#include "world_builder/features/plume.h"
#include "world_builder/features/plume_models/temperature/interface.h"
#include "world_builder/features/plume_models/composition/interface.h"
#include "world_builder/features/plume_models/grains/interface.h"
#include "world_builder/features/plume_models/velocity/interface.h"
#include "world_builder/utilities.h"
#include <cmath>
using namespace H;
namespace PM = WorldBuilder::Features::PlumeModels;
namespace
{
  struct { unsigned calls; double cx, cy, sma, ecc, theta, px, py, ret; } rec;
  struct { unsigned calls; double rel, told, fmin, fmax; } trec;
  struct StubPT final : PM::Temperature::Interface
  {
    void parse_entries(Parameters &) override {}
    double get_temperature(const Point<3> &, const Objects::NaturalCoordinate &, const double depth, const double, double t, const double fmin, const double fmax, const double rel) const override
    { ++trec.calls; trec.rel = rel; trec.told = t; trec.fmin = fmin; trec.fmax = fmax; return sym_uf2(100, depth, t); }
  };
}
extern "C" double __wrap__ZN12WorldBuilder9Utilities28fraction_from_ellipse_centerERKNS_5PointILj2EEEdddS4_
(const Point<2> *c, double sma, double ecc, double theta, const Point<2> *p)
{
  ++rec.calls; rec.cx = (*c)[0]; rec.cy = (*c)[1]; rec.sma = sma; rec.ecc = ecc; rec.theta = theta; rec.px = (*p)[0]; rec.py = (*p)[1];
  rec.ret = sym_f64("relative"); sym_assume(rec.ret >= 0);
  return rec.ret;
}

extern "C" void h_c04_plume(unsigned long K)
{
  alignas(Features::Plume) static unsigned char fbuf[sizeof(Features::Plume)];
  World *w = make_world(0);
  auto *f = reinterpret_cast<Features::Plume *>(fbuf);
  f->world = w; f->tag_index = 7;
  new (&f->coordinates) std::vector<Point<2>>();
  new (&f->depths) std::vector<double>(); new (&f->semi_major_axis_lengths) std::vector<double>();
  new (&f->eccentricities) std::vector<double>(); new (&f->rotation_angles) std::vector<double>();
  new (&f->temperature_models) std::vector<std::unique_ptr<PM::Temperature::Interface>>();
  new (&f->composition_models) std::vector<std::unique_ptr<PM::Composition::Interface>>();
  new (&f->grains_models) std::vector<std::unique_ptr<PM::Grains::Interface>>();
  new (&f->velocity_models) std::vector<std::unique_ptr<PM::Velocity::Interface>>();
  f->temperature_models.emplace_back(new StubPT());
  f->min_depth = sym_f64("min"); f->max_depth = sym_f64("max");
  const double two_pi = 2.0 * Consts::PI;
  for (unsigned i = 0; i < K; ++i)
    {
      f->coordinates.emplace_back(sym_f64("cx"), sym_f64("cy"), cartesian);
      f->depths.push_back(sym_f64("d")); f->semi_major_axis_lengths.push_back(sym_f64("a")); f->eccentricities.push_back(sym_f64("e")); f->rotation_angles.push_back(sym_f64("rot"));
      // schema domain: depths increasing, axes >= 0, 0 <= e < 1, rotation angle within [0, 2pi) (degrees 0..360 converted)
      sym_assume(f->semi_major_axis_lengths[i] >= 0 && f->eccentricities[i] >= 0 && f->eccentricities[i] < 1 && f->rotation_angles[i] >= 0 && f->rotation_angles[i] < two_pi);
      if (i) sym_assume(f->depths[i] > f->depths[i-1]);
    }
  sym_assume(f->min_depth >= 0 && f->depths[0] > f->min_depth && f->max_depth >= f->depths[K-1]);
  const Point<3> pos(sym_f64("x"), sym_f64("y"), sym_f64("z"), cartesian);
  const Objects::NaturalCoordinate nc(pos, *w->parameters.coordinate_system);
  const double depth = sym_f64("depth"), T0 = sym_f64("T0");
  const std::vector<Prop> props = {{{1,0,0}}, {{4,0,0}}};
  const std::vector<size_t> entry = {0, 1};
  std::vector<double> out = {T0, -1.0};
  f->Features::Plume::properties(pos, nc, depth, props, sym_f64("gravity"), entry, out);
  const bool painted = out[1] == 7.0;
  sym_assert(out[1] == 7.0 || out[1] == -1.0, "tag is own index or untouched");

  if (depth < f->min_depth) { sym_assert(!painted && sym_eq(out[0], T0), "above min depth the plume has no effect"); sym_reach("end-above"); return; }
  // ---- oracle for the cross section at this depth
  double cx, cy, e, lin_rot; bool head = false; double sma2 = 0, sma = 0; bool sma_by_square = false;
  const std::vector<double> &D = f->depths;
  if (depth < D[0])
    {
      head = true; cx = f->coordinates[0][0]; cy = f->coordinates[0][1]; e = f->eccentricities[0]; lin_rot = f->rotation_angles[0];
      const double frac = (depth - f->min_depth) / (D[0] - f->min_depth), b = f->semi_major_axis_lengths[0];
      sma2 = (1 - (1 - frac) * (1 - frac)) * b * b; sma_by_square = true;
    }
  else if (depth >= D[K-1])
    { cx = f->coordinates[K-1][0]; cy = f->coordinates[K-1][1]; e = f->eccentricities[K-1]; lin_rot = f->rotation_angles[K-1]; sma = f->semi_major_axis_lengths[K-1]; }
  else
    {
      unsigned i = 1; while (i < K && !(D[i-1] <= depth && depth < D[i])) ++i;
      const double t = (depth - D[i-1]) / (D[i] - D[i-1]);
      cx = f->coordinates[i-1][0] + t * (f->coordinates[i][0] - f->coordinates[i-1][0]);
      cy = f->coordinates[i-1][1] + t * (f->coordinates[i][1] - f->coordinates[i-1][1]);
      sma = f->semi_major_axis_lengths[i-1] + t * (f->semi_major_axis_lengths[i] - f->semi_major_axis_lengths[i-1]);
      e = f->eccentricities[i-1] + t * (f->eccentricities[i] - f->eccentricities[i-1]);
      double t1 = f->rotation_angles[i-1], t2 = f->rotation_angles[i];
      if (t2 - t1 > Consts::PI) t1 += two_pi; else if (t1 - t2 > Consts::PI) t2 += two_pi;      // interpolate along the shorter arc
      lin_rot = t1 + t * (t2 - t1);
    }
  sym_assert(rec.calls == 1, "the ellipse test is evaluated once");
  sym_assert(sym_eq(rec.cx, cx) && sym_eq(rec.cy, cy), "ellipse centre is the linear interpolant of the bracketing cross sections (last row below, first row in the head)");
  sym_assert(sym_eq(rec.ecc, e), "eccentricity is the linear interpolant");
  if (sma_by_square) sym_assert(rec.sma >= 0 && sym_eq(rec.sma * rec.sma, sma2), "head: semi-major axis is b*sqrt(1-(1-f)^2)");
  else sym_assert(sym_eq(rec.sma, sma), "semi-major axis is the linear interpolant");
  {
    const double k = (rec.theta - lin_rot) / two_pi;
    sym_assert(rec.theta >= 0 && rec.theta < two_pi && k == std::floor(k), "rotation angle is the shorter-arc interpolant modulo 2 pi");
  }
  const std::array<double,2> sc = nc.get_surface_coordinates();
  sym_assert(sym_eq(rec.px, sc[0]) && sym_eq(rec.py, sc[1]), "the ellipse test receives the query's surface position");
  double rel = rec.ret;
  if (head)
    {
      const double a = f->semi_major_axis_lengths[0], b2 = a * a * (1 - e * e), c = D[0] - f->min_depth;
      const double co = std::cos(rec.theta), si = std::sin(rec.theta);
      const double xr = (sc[0] - cx) * co + (sc[1] - cy) * si, yr = -(sc[0] - cx) * si + (sc[1] - cy) * co, zr = D[0] - depth;
      sym_assume(a > 0 && b2 > 0);
      rel = xr * xr / (a * a) + yr * yr / b2 + zr * zr / (c * c);
    }
  const bool member = depth <= f->max_depth && rel <= 1.0;
  sym_assert(painted == member, "plume contains the point iff min <= depth <= max and the relative distance is <= 1 (half-ellipsoid in the head)");
  if (painted) sym_assert(trec.calls == 1 && sym_eq(trec.rel, rel) && sym_eq(trec.told, T0) && sym_eq(trec.fmin, f->min_depth) && sym_eq(trec.fmax, f->max_depth) && sym_eq(out[0], sym_uf2(100, depth, T0)),
                          "inside, the temperature model gets the relative distance, the incoming value and the plume's depth range");
  else sym_assert(sym_eq(out[0], T0), "outside, nothing changes");
  sym_reach("end");
}


// C02.frame.plume: the dispatch part of Plume::properties (one cross section, point at or below it, membership decided by the stubbed
// ellipse test): a plume that does not contain the point changes nothing; inside, every requested entry is the chain of the plume's own
// models in list order at its own slots (temperature and velocity models also get the relative distance), tag = own index, nothing else is written.
namespace
{
  struct StubPT2 final : PM::Temperature::Interface
  { unsigned id; void parse_entries(Parameters &) override {}
    double get_temperature(const Point<3> &, const Objects::NaturalCoordinate &, const double depth, const double, double t, const double fmin, const double fmax, const double rel) const override
    { return sym_uf4(100+id, depth, t, fmin + fmax, rel); } };
  struct StubPC final : PM::Composition::Interface
  { unsigned id; void parse_entries(Parameters &) override {}
    double get_composition(const Point<3> &, const Objects::NaturalCoordinate &, const double depth, const unsigned int n, double c, const double fmin, const double fmax) const override
    { return sym_uf4(200+id+10*n, depth, c, fmin, fmax); } };
  struct StubPG final : PM::Grains::Interface
  { unsigned id; void parse_entries(Parameters &) override {}
    WorldBuilder::grains get_grains(const Point<3> &, const Objects::NaturalCoordinate &, const double depth, const unsigned int n, WorldBuilder::grains g, const double fmin, const double fmax) const override
    {
      for (unsigned i = 0; i < g.sizes.size(); ++i)
        {
          g.sizes[i] = sym_uf4(300+id+10*n, depth, g.sizes[i], fmin, fmax);
          for (unsigned r = 0; r < 9; ++r) g.rotation_matrices[i][r/3][r%3] = sym_uf4(400+id+10*n, depth, g.rotation_matrices[i][r/3][r%3], fmin, fmax);
        }
      return g;
    } };
  struct StubPV final : PM::Velocity::Interface
  { unsigned id; void parse_entries(Parameters &) override {}
    std::array<double,3> get_velocity(const Point<3> &, const Objects::NaturalCoordinate &, const double depth, const double, std::array<double,3> v, const double fmin, const double fmax, const double rel) const override
    { return {{sym_uf4(500+id, depth, v[0], fmin + fmax, rel), sym_uf4(510+id, depth, v[1], fmin + fmax, rel), sym_uf4(520+id, depth, v[2], fmin + fmax, rel)}}; } };
}
extern "C" void h_c02_plume_frame(unsigned long L, unsigned long counts)
{
  alignas(Features::Plume) static unsigned char fbuf[sizeof(Features::Plume)];
  World *w = make_world(0);
  auto *f = reinterpret_cast<Features::Plume *>(fbuf);
  f->world = w; f->tag_index = 7;
  new (&f->coordinates) std::vector<Point<2>>();
  new (&f->depths) std::vector<double>(); new (&f->semi_major_axis_lengths) std::vector<double>();
  new (&f->eccentricities) std::vector<double>(); new (&f->rotation_angles) std::vector<double>();
  new (&f->temperature_models) std::vector<std::unique_ptr<PM::Temperature::Interface>>();
  new (&f->composition_models) std::vector<std::unique_ptr<PM::Composition::Interface>>();
  new (&f->grains_models) std::vector<std::unique_ptr<PM::Grains::Interface>>();
  new (&f->velocity_models) std::vector<std::unique_ptr<PM::Velocity::Interface>>();
  const unsigned nT = counts % 3, nC = (counts / 3) % 3, nG = (counts / 9) % 3, nV = (counts / 27) % 3;
  for (unsigned i = 0; i < nT; ++i) { auto *m = new StubPT2(); m->id = i; f->temperature_models.emplace_back(m); }
  for (unsigned i = 0; i < nC; ++i) { auto *m = new StubPC(); m->id = i; f->composition_models.emplace_back(m); }
  for (unsigned i = 0; i < nG; ++i) { auto *m = new StubPG(); m->id = i; f->grains_models.emplace_back(m); }
  for (unsigned i = 0; i < nV; ++i) { auto *m = new StubPV(); m->id = i; f->velocity_models.emplace_back(m); }
  f->min_depth = sym_f64("min"); f->max_depth = sym_f64("max");
  f->coordinates.emplace_back(sym_f64("cx"), sym_f64("cy"), cartesian);
  f->depths.push_back(sym_f64("d")); f->semi_major_axis_lengths.push_back(sym_f64("a")); f->eccentricities.push_back(sym_f64("e")); f->rotation_angles.push_back(sym_f64("rot"));
  sym_assume(f->semi_major_axis_lengths[0] >= 0 && f->eccentricities[0] >= 0 && f->eccentricities[0] < 1 && f->min_depth >= 0 && f->depths[0] > f->min_depth && f->max_depth >= f->depths[0]);
  const Point<3> pos(sym_f64("x"), sym_f64("y"), sym_f64("z"), cartesian);
  const Objects::NaturalCoordinate nc(pos, *w->parameters.coordinate_system);
  const double depth = sym_f64("depth"), g = sym_f64("gravity");
  sym_assume(depth >= f->depths[0]);                       // at or below the (only) cross section: the head ellipsoid is C04.plume's subject
  const std::vector<Prop> props = make_request(static_cast<unsigned>(L), 1);
  std::vector<size_t> entry; std::vector<double> out;
  for (unsigned i = 0; i < props.size(); ++i) { entry.push_back(out.size()); for (unsigned s = 0; s < width_of(props[i]); ++s) out.push_back(sym_f64("old")); }
  out.push_back(sym_f64("guard"));
  const std::vector<double> old = out;
  rec.calls = 0;
  sym_freeze(); sym_allow(&rec); sym_allow(&trec); sym_allow(out.data());
  f->Features::Plume::properties(pos, nc, depth, props, g, entry, out);
  sym_assert(sym_writes() == 0, "the feature query stores only to fresh memory and the caller's output vector");
  const bool inside = depth <= f->max_depth && rec.calls == 1 && rec.ret <= 1.0;
  const double lmin = f->min_depth, lmax = f->max_depth, rel = rec.ret;
  for (unsigned i = 0; i < props.size(); ++i)
    {
      const size_t e = entry[i];
      if (!inside) { for (unsigned s = 0; s < width_of(props[i]); ++s) sym_assert(sym_same(out[e+s], old[e+s]), "a feature that does not contain the point changes nothing"); continue; }
      switch (props[i][0])
        {
          case 1: { double v = old[e]; for (unsigned m = 0; m < nT; ++m) v = sym_uf4(100+m, depth, v, lmin + lmax, rel);
                    sym_assert(sym_same(out[e], v), "temperature is the chain of the feature's models in list order (unchanged without models)"); break; }
          case 2: { double v = old[e]; for (unsigned m = 0; m < nC; ++m) v = sym_uf4(200+m+10*props[i][1], depth, v, lmin, lmax);
                    sym_assert(sym_same(out[e], v), "composition is the chain of the feature's models in list order (unchanged without models)"); break; }
          case 3: { const unsigned k = props[i][2];
                    for (unsigned q = 0; q < 10*k; ++q) { double v = old[e+q]; for (unsigned m = 0; m < nG; ++m) v = sym_uf4((q < k ? 300 : 400)+m+10*props[i][1], depth, v, lmin, lmax);
                                                          sym_assert(sym_same(out[e+q], v), "grains are the chain of the feature's models in list order (unchanged without models)"); }
                    break; }
          case 4: sym_assert(out[e] == 7.0, "tag is the feature's own index"); break;
          case 5: { if (nV == 0) break;
                    for (unsigned q = 0; q < 3; ++q) { double v = 0.0; for (unsigned m = 0; m < nV; ++m) v = sym_uf4(500+10*q+m, depth, v, lmin + lmax, rel);
                                                       sym_assert(sym_same(out[e+q], v), "velocity is the chain of the feature's velocity models"); }
                    break; }
        }
    }
  sym_assert(sym_same(out.back(), old.back()) && out.size() == old.size(), "nothing outside the requested slots is written");
  sym_reach("end");
}
