"""Build step: /repo sources + harness -> LLVM IR (clang++-14) -> one linked module; and the native twin (g++ -O2)."""
import os, re, subprocess, hashlib, sys, shutil, json, glob
from concurrent.futures import ThreadPoolExecutor

REPO = os.environ.get('VERIF_REPO', '/repo')
VERIF = os.path.dirname(os.path.dirname(os.path.abspath(__file__)))
CACHE = os.environ.get('VERIF_CACHE', '/var/tmp/wbverif-cache')
CLANG_FLAGS = ['-std=c++14', '-O1', '-DNDEBUG', '-ffp-contract=off', '-fno-vectorize', '-fno-slp-vectorize', '-fno-unroll-loops',
               '-fno-discard-value-names', '-Wno-everything', '-S', '-emit-llvm']
GXX_FLAGS = ['-std=c++14', '-O2', '-DNDEBUG', '-ffp-contract=off', '-w']

class BuildError(Exception): pass

def sha(*parts):
    h = hashlib.sha256()
    for p in parts: h.update(p if isinstance(p, bytes) else p.encode())
    return h.hexdigest()[:24]

_inc_hash = None
def include_hash():
    """hash of every header under /repo/include/world_builder (+ the three-party headers' sizes) and of the harness headers"""
    global _inc_hash
    if _inc_hash is None:
        h = hashlib.sha256()
        for root in (os.path.join(REPO, 'include', 'world_builder'), os.path.join(VERIF, 'harness')):
            for d, _, fs in sorted(os.walk(root)):
                for f in sorted(fs):
                    if f.endswith(('.h', '.hpp', '.in')):
                        p = os.path.join(d, f); h.update(p.encode()); h.update(open(p, 'rb').read())
        for p in ('include/delaunator-cpp/delaunator.hpp', 'include/vtu11/vtu11.hpp'):
            q = os.path.join(REPO, p)
            if os.path.exists(q): h.update(open(q, 'rb').read())
        _inc_hash = h.hexdigest()
    return _inc_hash

_src_hash = None
def source_tree_hash():
    """hash of every file under /repo/source: harness units may #include repository .cc files (surface.cc, main.cc, model sources)"""
    global _src_hash
    if _src_hash is None:
        h = hashlib.sha256()
        for d, _, fs in sorted(os.walk(os.path.join(REPO, 'source'))):
            for f in sorted(fs):
                if f.endswith(('.cc', '.h', '.hpp')):
                    p = os.path.join(d, f); h.update(p.encode()); h.update(open(p, 'rb').read())
        _src_hash = h.hexdigest()
    return _src_hash

def config_dir():
    d = os.path.join(CACHE, 'config-' + sha(open(os.path.join(REPO, 'include/world_builder/config.h.in'), 'rb').read(), open(os.path.join(REPO, 'VERSION'), 'rb').read()))
    out = os.path.join(d, 'world_builder', 'config.h')
    if not os.path.exists(out):
        os.makedirs(os.path.dirname(out), exist_ok=True)
        ver = open(os.path.join(REPO, 'VERSION')).read().strip()
        m = re.match(r'(\d+)\.(\d+)\.(\d+)(?:-(.*))?', ver)
        sub = {'WORLD_BUILDER_VERSION_MAJOR': m.group(1), 'WORLD_BUILDER_VERSION_MINOR': m.group(2), 'WORLD_BUILDER_VERSION_PATCH': m.group(3),
               'WORLD_BUILDER_VERSION_LABEL': m.group(4) or '', 'WORLD_BUILDER_VERSION': ver, 'GIT_SHA1': 'verif', 'GIT_BRANCH': 'verif', 'GIT_DATE': 'verif',
               'GIT_COMMIT_SUBJECT': 'verif', 'WORLD_BUILDER_SOURCE_DIR': REPO, 'WB_FORTRAN_COMPILER': 'none'}
        txt = open(os.path.join(REPO, 'include/world_builder/config.h.in')).read()
        txt = re.sub(r'@(\w+)@', lambda mm: sub.get(mm.group(1), ''), txt)
        txt = re.sub(r'#cmakedefine\s+(\w+).*', r'/* #undef \1 */', txt)
        open(out + '.tmp', 'w').write(txt); os.replace(out + '.tmp', out)
    return d

def src_path(tu):
    """'world' -> /repo/source/world_builder/world.cc ; 'features/fault' ; absolute/harness paths are kept"""
    if tu.endswith('.cc') or tu.endswith('.cpp'):
        return tu if os.path.isabs(tu) else os.path.join(VERIF, 'harness', tu)
    return os.path.join(REPO, 'source', 'world_builder', tu + '.cc')

def incs():
    return ['-I' + os.path.join(REPO, 'include'), '-I' + config_dir(), '-I' + os.path.join(VERIF, 'harness'), '-I' + os.path.join(REPO, 'source')]

def compile_ll(tu, extra=()):
    src = src_path(tu)
    if not os.path.exists(src): raise BuildError('missing source ' + src)
    harness = src.startswith(VERIF) or '/wbverif-gen/' in src
    flags = CLANG_FLAGS + list(extra) + (['-fno-access-control'] if harness else [])
    key = sha(open(src, 'rb').read(), include_hash(), source_tree_hash() if harness else '', ' '.join(flags), src, 'v4')
    out = os.path.join(CACHE, 'll', key + '.ll')
    if not os.path.exists(out):
        os.makedirs(os.path.dirname(out), exist_ok=True)
        tmp = out + '.%d.tmp' % os.getpid()
        r = subprocess.run(['clang++-14'] + flags + incs() + ['-o', tmp, src], capture_output=True, text=True)
        if r.returncode != 0: raise BuildError('clang failed on %s:\n%s' % (src, r.stderr[-3000:]))
        os.replace(tmp, out)
    return out

def link_ll(lls, tag=''):
    key = sha(*[open(x, 'rb').read() for x in lls], tag)
    out = os.path.join(CACHE, 'linked', key + '.ll')
    if not os.path.exists(out):
        os.makedirs(os.path.dirname(out), exist_ok=True)
        tmp = out + '.%d.tmp' % os.getpid()
        r = subprocess.run(['llvm-link-14', '-S', '-o', tmp] + lls, capture_output=True, text=True)
        if r.returncode != 0: raise BuildError('llvm-link failed:\n' + r.stderr[-3000:])
        os.replace(tmp, out)
    return out

def build_ir(tus, extra=()):
    """tus: harness file(s) + repo TUs; returns path of the linked textual module"""
    with ThreadPoolExecutor(max_workers=min(16, len(tus))) as ex:
        lls = list(ex.map(lambda t: compile_ll(t, extra), tus))
    return link_ll(lls)

def compile_obj(tu, extra=()):
    src = src_path(tu); harness = src.startswith(VERIF) or '/wbverif-gen/' in src
    flags = GXX_FLAGS + list(extra) + (['-DSYM_NATIVE', '-fno-access-control'] if harness else [])
    cc = 'clang++-14' if harness else 'g++'     # -fno-access-control is a clang flag; repo sources use the project's compiler
    if harness: flags = [f for f in flags if f != '-w'] + ['-Wno-everything']
    key = sha(open(src, 'rb').read(), include_hash(), source_tree_hash() if harness else '', ' '.join(flags), src, cc, 'v4')
    out = os.path.join(CACHE, 'obj', key + '.o')
    if not os.path.exists(out):
        os.makedirs(os.path.dirname(out), exist_ok=True)
        tmp = out + '.%d.tmp.o' % os.getpid()
        r = subprocess.run([cc] + flags + incs() + ['-c', '-o', tmp, src], capture_output=True, text=True)
        if r.returncode != 0: raise BuildError('%s failed on %s:\n%s' % (cc, src, r.stderr[-3000:]))
        os.replace(tmp, out)
    return out

def build_native(tus, wraps=()):
    """native twin: harness + replay runtime + the same repo TUs (g++ -O2 -DNDEBUG like the shipped build)"""
    tus = list(tus) + ['replay_rt.cc']
    with ThreadPoolExecutor(max_workers=min(16, len(tus))) as ex:
        objs = list(ex.map(compile_obj, tus))
    key = sha(*[open(x, 'rb').read() for x in objs], ' '.join(wraps))
    out = os.path.join(CACHE, 'bin', key)
    if not os.path.exists(out):
        os.makedirs(os.path.dirname(out), exist_ok=True)
        tmp = out + '.%d.tmp' % os.getpid()
        cmd = ['g++', '-o', tmp] + objs + ['-rdynamic', '-ldl', '-lm', '-lpthread', '-Wl,--unresolved-symbols=ignore-all', '-Wl,--allow-multiple-definition'] + ['-Wl,--wrap=' + w for w in wraps]
        r = subprocess.run(cmd, capture_output=True, text=True)
        if r.returncode != 0: raise BuildError('native link failed:\n' + r.stderr[-3000:])
        os.replace(tmp, out)
    return out

def source_hashes(tus):
    out = {}
    for t in tus:
        p = src_path(t)
        out[os.path.relpath(p, REPO) if p.startswith(REPO) else os.path.relpath(p, VERIF)] = sha(open(p, 'rb').read())[:12]
    return out
