"""Spike: forking symbolic executor over LLVM-14 textual IR (concrete pointers, z3)."""
import sys, time, copy, struct, math
from llir import *
import z3

MODE = 'fp'   # 'fp' | 'real'
RNE = z3.RNE()
F64 = z3.Float64()

class Throw(Exception): pass
class Unsupported(Exception): pass
class Fork(Exception):
    def __init__(s, alts): s.alts = alts      # list of z3 Bool constraints, re-execute instruction under each
class PathEnd(Exception): pass

# ------------------------------------------------------------ values
def mask(w): return (1 << w) - 1
def iv(w, v):
    if isinstance(v, int): return ('i', w, v & mask(w))
    return ('i', w, v)
def is_conc(v): return isinstance(v, (int, float))
def bv(x):  # ('i',w,v) -> z3
    return z3.BitVecVal(x[2], x[1]) if isinstance(x[2], int) else x[2]
def fz(x):
    v = x[1]
    if isinstance(v, float):
        return z3.FPVal(v, F64) if MODE == 'fp' else z3.RealVal(repr(v)) if v == v and abs(v) != float('inf') else None
    return v
def to_signed(v, w): return v - (1 << w) if v >> (w-1) else v
NULL = ('p', None, 0)

class Obj:
    __slots__ = ('size', 'cells', 'zero', 'freed', 'name', 'pre')
    def __init__(s, size, name=''):
        s.size, s.cells, s.zero, s.freed, s.name, s.pre = size, {}, [], False, name, False
    def clone(s):
        o = Obj(s.size, s.name); o.cells = dict(s.cells); o.zero = list(s.zero); o.freed = s.freed; o.pre = s.pre
        return o

class State:
    def __init__(s):
        s.frames = []; s.mem = {}; s.next_obj = 1; s.pc = []; s.globals = {}; s.log = []; s.steps = 0; s.subst = {}
    def clone(s):
        t = State(); t.frames = [f.clone() for f in s.frames]
        t.mem = {k: o.clone() for k, o in s.mem.items()}
        t.next_obj = s.next_obj; t.pc = list(s.pc); t.globals = dict(s.globals); t.log = list(s.log); t.steps = s.steps; t.subst = dict(s.subst)
        return t
    def alloc(s, size, name=''):
        i = s.next_obj; s.next_obj += 1; s.mem[i] = Obj(size, name); return i

class Frame:
    def __init__(s, fn): s.fn, s.regs, s.block, s.prev, s.ip, s.ret_to, s.allocas = fn, {}, None, None, 0, None, []
    def clone(s):
        f = Frame(s.fn); f.regs = dict(s.regs); f.block, f.prev, f.ip, f.ret_to, f.allocas = s.block, s.prev, s.ip, s.ret_to, list(s.allocas)
        return f

class Exec:
    def __init__(s, mod):
        s.mod = mod; s.tokcache = {}; s.counter = 0; s.stats = dict(paths=0, queries=0, forks=0, solver_s=0.0, steps=0, throws=0)
        s.violations = []; s.ufs = {}
        s.max_steps = 2000000
    # ---------------------------------------------------- solver helpers
    def check(s, st, extra=()):
        sol = z3.Solver(); sol.set('timeout', 60000)
        for c in st.pc: sol.add(c)
        for c in extra: sol.add(c)
        t = time.time(); r = sol.check(); s.stats['solver_s'] += time.time() - t; s.stats['queries'] += 1
        return r, sol
    def fresh(s, name): s.counter += 1; return '%s!%d' % (name, s.counter)
    # ---------------------------------------------------- memory
    def load(s, st, ty, p):
        ty = s.mod.resolve(ty)
        if p[0] != 'p' or p[1] is None: raise Unsupported('load through %r' % (p,))
        o = st.mem[p[1]]; off = p[2]
        if o.freed: raise Unsupported('use after free')
        n = s.mod.size(ty)
        if off < 0 or off + n > o.size: raise Unsupported('OOB load %s[%d..%d) size %d' % (o.name, off, off+n, o.size))
        if ty.k == 'struct':
            return ('agg', [s.load(st, f, ('p', p[1], off + s.mod.field_offset(ty, i))) for i, f in enumerate(ty.a)])
        if ty.k in ('arr', 'vec'):
            es = s.mod.size(ty.b)
            return ('agg', [s.load(st, ty.b, ('p', p[1], off + i*es)) for i in range(ty.a)])
        c = o.cells.get(off)
        if c is not None and c[0] == n: return s.coerce(c[1], ty)
        for a, b in o.zero:
            if a <= off and off + n <= b and not any(k < off + n and k + o.cells[k][0] > off for k in o.cells):
                return s.zero_of(ty)
        if c is None and not any(k < off + n and k + o.cells[k][0] > off for k in o.cells):
            st.log.append('uninit read %s+%d' % (o.name, off))
            return s.fresh_val(ty, 'uninit')
        # narrow load out of a wider integer cell / combining: only int-from-int handled
        for k, (cn, cv) in o.cells.items():
            if k <= off and off + n <= k + cn and cv[0] == 'i' and ty.k == 'int':
                sh = (off - k)*8
                if isinstance(cv[2], int): return iv(ty.a, cv[2] >> sh)
                return iv(ty.a, z3.Extract(sh + ty.a - 1, sh, cv[2]))
        raise Unsupported('partial load %s+%d n=%d cells=%r' % (o.name, off, n, sorted(o.cells)[:8]))
    def coerce(s, v, ty):
        if ty.k == 'int':
            if v[0] == 'i':
                if v[1] == ty.a: return v
                raise Unsupported('int width mismatch')
            if v[0] == 'p': return ('pi', v)      # pointer viewed as int
            if v[0] == 'f':
                if isinstance(v[1], float): return iv(64, struct.unpack('<Q', struct.pack('<d', v[1]))[0])
        if ty.k == 'ptr':
            if v[0] in ('p', 'fn'): return v
            if v[0] == 'pi': return v[1]
            if v[0] == 'i' and v[2] == 0: return NULL
        if ty.k == 'double':
            if v[0] == 'f': return v
            if v[0] == 'i' and isinstance(v[2], int): return ('f', struct.unpack('<d', struct.pack('<Q', v[2]))[0])
        raise Unsupported('coerce %r to %r' % (v[0], ty))
    def zero_of(s, ty):
        if ty.k == 'int': return iv(ty.a, 0)
        if ty.k == 'double': return ('f', 0.0)
        if ty.k == 'ptr': return NULL
        raise Unsupported('zero of %r' % ty)
    def fresh_val(s, ty, name):
        if ty.k == 'int': return iv(ty.a, z3.BitVec(s.fresh(name), ty.a))
        if ty.k == 'double': return ('f', z3.FP(s.fresh(name), F64) if MODE == 'fp' else z3.Real(s.fresh(name)))
        if ty.k == 'ptr': return ('undefptr',)
        raise Unsupported('fresh of %r' % ty)
    def store(s, st, ty, v, p):
        ty = s.mod.resolve(ty)
        if p[0] != 'p' or p[1] is None: raise Unsupported('store through %r' % (p,))
        o = st.mem[p[1]]; off = p[2]; n = s.mod.size(ty)
        if off < 0 or off + n > o.size: raise Unsupported('OOB store %s+%d n=%d size=%d' % (o.name, off, n, o.size))
        if o.pre: st.log.append('WRITE-PRE %s+%d' % (o.name, off))
        if v[0] == 'agg':
            if ty.k == 'struct':
                for i, f in enumerate(ty.a): s.store(st, f, v[1][i], ('p', p[1], off + s.mod.field_offset(ty, i)))
            else:
                es = s.mod.size(ty.b)
                for i in range(ty.a): s.store(st, ty.b, v[1][i], ('p', p[1], off + i*es))
            return
        for k in [k for k in o.cells if k < off + n and k + o.cells[k][0] > off]: del o.cells[k]
        o.cells[off] = (n, v)
    def memcpy(s, st, d, sp, n):
        if n == 0: return
        so = st.mem[sp[1]]; do = st.mem[d[1]]
        if sp[2] + n > so.size or d[2] + n > do.size: raise Unsupported('OOB memcpy')
        cells = [(k, c) for k, c in so.cells.items() if k >= sp[2] and k + c[0] <= sp[2] + n]
        zr = [(max(a, sp[2]), min(b, sp[2]+n)) for a, b in so.zero if a < sp[2]+n and b > sp[2]]
        for k in [k for k in do.cells if k < d[2] + n and k + do.cells[k][0] > d[2]]: del do.cells[k]
        do.zero = [(a, b) for a, b in do.zero if not (a < d[2]+n and b > d[2])] + [(a - sp[2] + d[2], b - sp[2] + d[2]) for a, b in zr]
        for k, c in cells: do.cells[k - sp[2] + d[2]] = c
    # ---------------------------------------------------- operand parsing
    def toks(s, text):
        t = s.tokcache.get(text)
        if t is None: t = s.tokcache[text] = tokenize(text)
        return t
    def value(s, st, p, ty):
        """parse an (untyped) value of type ty at parser p"""
        k, v = p.next(); rty = s.mod.resolve(ty) if ty.k == 'named' else ty
        if k in ('id', 'qid'):
            nm = v[1:].strip('"')
            if v[0] == '%': return st.frames[-1].regs[nm]
            return s.global_addr(st, nm)
        if k == 'num':
            if rty.k == 'int': return iv(rty.a, int(v))
            if rty.k == 'double': return ('f', float(v))
            if rty.k == 'float': return ('f', float(v))
        if k == 'hex':
            if rty.k == 'double': return ('f', struct.unpack('<d', struct.pack('<Q', int(v, 16)))[0])
            if rty.k == 'float': return ('f', struct.unpack('<d', struct.pack('<Q', int(v, 16)))[0])
        if k == 'word':
            if v == 'null': return NULL
            if v == 'true': return iv(1, 1)
            if v == 'false': return iv(1, 0)
            if v in ('undef', 'poison'):
                if rty.k in ('struct', 'arr', 'vec'): return s.zero_agg(rty, undef=True)
                return ('undef',)
            if v == 'zeroinitializer': return s.zero_agg(rty)
            if v == 'getelementptr':
                p.accept('inbounds'); p.expect('('); bt = p.ty(); p.expect(',')
                pt = p.ty(); base = s.value(st, p, pt); idx = []
                while p.accept(','):
                    p.accept('inrange'); it = p.ty(); idx.append(s.value(st, p, it))
                p.expect(')'); return s.gep(st, bt, base, idx)
            if v in ('bitcast', 'ptrtoint', 'inttoptr', 'addrspacecast'):
                p.expect('('); ft = p.ty(); x = s.value(st, p, ft); p.expect('to'); tt = p.ty(); p.expect(')')
                return s.cast(v, x, s.mod.resolve(ft), s.mod.resolve(tt))
        if v in ('{', '<{', '[', '<'):
            close = {'{': '}', '<{': '}>', '[': ']', '<': '>'}[v]; vals = []
            if not p.accept(close):
                while True:
                    et = p.ty(); vals.append(s.value(st, p, et))
                    if p.accept(close): break
                    p.expect(',')
            return ('agg', vals)
        if k == 'str':
            raw = v[2:-1]; out = []; i = 0
            while i < len(raw):
                if raw[i] == '\\': out.append(int(raw[i+1:i+3], 16)); i += 3
                else: out.append(ord(raw[i])); i += 1
            return ('agg', [iv(8, b) for b in out])
        raise Unsupported('value %r %r of %r' % (k, v, ty))
    def zero_agg(s, t, undef=False):
        t = s.mod.resolve(t)
        if t.k == 'struct': return ('agg', [s.zero_agg(f, undef) for f in t.a])
        if t.k in ('arr', 'vec'): return ('agg', [s.zero_agg(t.b, undef) for _ in range(t.a)])
        return ('undef',) if undef else s.zero_of(t)
    def tv(s, st, p):
        ty = p.ty()
        # skip parameter attributes
        while p.peek()[0] == 'word' and p.peek()[1] in ('noundef', 'nonnull', 'signext', 'zeroext', 'nocapture', 'readonly', 'writeonly', 'noalias', 'align', 'dereferenceable', 'returned', 'sret', 'byval', 'immarg', 'inreg', 'nofree', 'readnone'):
            w = p.next()[1]
            if w == 'align': p.next()
            elif p.peek()[1] == '(':
                d = 0
                while True:
                    x = p.next()[1]; d += (x == '(') - (x == ')')
                    if d == 0: break
        return ty, s.value(st, p, ty)
    def global_addr(s, st, nm):
        if nm in s.mod.aliases:
            p = P(s.mod.aliases[nm], s.mod); ty = p.ty(); return s.value(st, p, ty)
        if nm in s.mod.funcs or nm in s.mod.decls: return ('fn', nm)
        if nm in st.globals: return ('p', st.globals[nm], 0)
        if nm not in s.mod.globals: raise Unsupported('unknown global ' + nm)
        ty, init, const = s.mod.globals[nm]
        oid = st.alloc(s.mod.size(ty), '@' + nm); st.globals[nm] = oid
        p = P(init, s.mod)
        if p.peek()[0] is not None and p.peek()[1] not in (',',) and not (p.peek()[0] == 'word' and p.peek()[1] in ('align', 'section', 'comdat')):
            v = s.value(st, p, ty)
            if v != ('undef',): s.store(st, ty, v, ('p', oid, 0))
        st.mem[oid].pre = True
        return ('p', oid, 0)
    def gep(s, st, bt, base, idx):
        if base[0] != 'p': raise Unsupported('gep on %r' % (base,))
        off = base[2]; t = bt
        for n, i in enumerate(idx):
            iv_ = to_signed(s.conc(st, i), i[1])
            if n == 0: off += iv_ * s.mod.size(t); continue
            t = s.mod.resolve(t)
            if t.k == 'struct': off += s.mod.field_offset(t, iv_); t = t.a[iv_]
            elif t.k in ('arr', 'vec'): off += iv_ * s.mod.size(t.b); t = t.b
            else: raise Unsupported('gep into %r' % t)
        return ('p', base[1], off)
    def conc(s, st, x):
        if isinstance(x[2], int): return x[2]
        v = st.subst.get(x[2].get_id())
        if v is None: raise Fork(s.enum_values(st, x))
        return v
    def enum_values(s, st, x, limit=64):
        vals = []; extra = []
        while len(vals) <= limit:
            r, sol = s.check(st, extra)
            if r != z3.sat: break
            v = sol.model().eval(x[2], model_completion=True).as_long(); vals.append(v); extra.append(x[2] != v)
        if len(vals) > limit: raise Unsupported('too many values to concretise')
        s.stats['forks'] += 1
        return [(x[2] == v, x[2].get_id(), v) for v in vals]
    def cast(s, op, x, ft, tt):
        if op == 'bitcast':
            if tt.k == 'ptr': return x
            if ft.k == 'double' and tt.k == 'int': return s.coerce(x, tt)
            if ft.k == 'int' and tt.k == 'double': return s.coerce(x, tt)
            if ft.k == 'vec' or tt.k == 'vec': return x
            return x
        if op == 'ptrtoint': return ('pi', x)
        if op == 'inttoptr': return x[1] if x[0] == 'pi' else s.coerce(x, tt)
        return x
    # ---------------------------------------------------- arithmetic
    def ibin(s, op, a, b):
        if a[0] == 'pi' or b[0] == 'pi':
            if op == 'sub' and a[0] == 'pi' and b[0] == 'pi':
                pa, pb = a[1], b[1]
                if pa[1] == pb[1]: return iv(64, pa[2] - pb[2])
                raise Unsupported('pointer difference across objects')
            if op == 'add' and a[0] == 'pi' and isinstance(b[2], int): return ('pi', ('p', a[1][1], a[1][2] + to_signed(b[2], 64)))
            raise Unsupported('int op on pointer: ' + op)
        w = a[1]; x, y = a[2], b[2]
        if isinstance(x, int) and isinstance(y, int):
            sx, sy = to_signed(x, w), to_signed(y, w)
            r = {'add': lambda: x + y, 'sub': lambda: x - y, 'mul': lambda: x * y, 'and': lambda: x & y, 'or': lambda: x | y, 'xor': lambda: x ^ y,
                 'shl': lambda: x << y, 'lshr': lambda: x >> y, 'ashr': lambda: sx >> y,
                 'udiv': lambda: x // y, 'urem': lambda: x % y,
                 'sdiv': lambda: int(math.trunc(sx / sy)) if abs(sx) < 2**52 else (abs(sx)//abs(sy))*(1 if (sx < 0) == (sy < 0) else -1),
                 'srem': lambda: sx - sy*int(math.trunc(sx / sy))}[op]()
            return iv(w, r)
        X, Y = bv(a), bv(b)
        r = {'add': lambda: X + Y, 'sub': lambda: X - Y, 'mul': lambda: X * Y, 'and': lambda: X & Y, 'or': lambda: X | Y, 'xor': lambda: X ^ Y,
             'shl': lambda: X << Y, 'lshr': lambda: z3.LShR(X, Y), 'ashr': lambda: X >> Y, 'udiv': lambda: z3.UDiv(X, Y), 'urem': lambda: z3.URem(X, Y),
             'sdiv': lambda: X / Y, 'srem': lambda: z3.SRem(X, Y)}[op]()
        return iv(w, z3.simplify(r))
    def icmp(s, pred, a, b):
        if a[0] in ('p', 'fn', 'pi') or b[0] in ('p', 'fn', 'pi'):
            pa = a[1] if a[0] == 'pi' else a; pb = b[1] if b[0] == 'pi' else b
            if pa[0] == 'i' and pa[2] == 0: pa = NULL
            if pb[0] == 'i' and pb[2] == 0: pb = NULL
            if pred == 'eq': return iv(1, int(pa == pb))
            if pred == 'ne': return iv(1, int(pa != pb))
            if pa[0] == 'p' and pb[0] == 'p' and pa[1] == pb[1]:
                return s.icmp(pred, iv(64, pa[2]), iv(64, pb[2]))
            raise Unsupported('pointer compare ' + pred)
        w = a[1]; x, y = a[2], b[2]
        if isinstance(x, int) and isinstance(y, int):
            sx, sy = to_signed(x, w), to_signed(y, w)
            return iv(1, int({'eq': x == y, 'ne': x != y, 'ult': x < y, 'ule': x <= y, 'ugt': x > y, 'uge': x >= y,
                              'slt': sx < sy, 'sle': sx <= sy, 'sgt': sx > sy, 'sge': sx >= sy}[pred]))
        X, Y = bv(a), bv(b)
        c = {'eq': lambda: X == Y, 'ne': lambda: X != Y, 'ult': lambda: z3.ULT(X, Y), 'ule': lambda: z3.ULE(X, Y), 'ugt': lambda: z3.UGT(X, Y),
             'uge': lambda: z3.UGE(X, Y), 'slt': lambda: X < Y, 'sle': lambda: X <= Y, 'sgt': lambda: X > Y, 'sge': lambda: X >= Y}[pred]()
        return ('i', 1, z3.If(c, z3.BitVecVal(1, 1), z3.BitVecVal(0, 1)))
    def fbin(s, op, a, b):
        x, y = a[1], b[1]
        if isinstance(x, float) and isinstance(y, float):
            try: return ('f', {'fadd': lambda: x + y, 'fsub': lambda: x - y, 'fmul': lambda: x * y, 'fdiv': lambda: x / y}[op]())
            except ZeroDivisionError: return ('f', float('nan') if x == 0 or x != x else math.copysign(float('inf'), x) * math.copysign(1, y))
        X, Y = fz(a), fz(b)
        if MODE == 'fp':
            r = {'fadd': z3.fpAdd, 'fsub': z3.fpSub, 'fmul': z3.fpMul, 'fdiv': z3.fpDiv}[op](RNE, X, Y)
        else:
            r = {'fadd': lambda: X + Y, 'fsub': lambda: X - Y, 'fmul': lambda: X * Y, 'fdiv': lambda: X / Y}[op]()
        return ('f', r)
    def fcmp(s, pred, a, b):
        x, y = a[1], b[1]
        if isinstance(x, float) and isinstance(y, float):
            un = x != x or y != y
            o = {'oeq': x == y, 'one': x != y and not un, 'olt': x < y, 'ole': x <= y, 'ogt': x > y, 'oge': x >= y, 'ord': not un,
                 'ueq': x == y or un, 'une': x != y, 'ult': x < y or un, 'ule': x <= y or un, 'ugt': x > y or un, 'uge': x >= y or un, 'uno': un}[pred]
            return iv(1, int(o))
        X, Y = fz(a), fz(b)
        if MODE == 'fp':
            un = z3.Or(z3.fpIsNaN(X), z3.fpIsNaN(Y))
            base = {'eq': z3.fpEQ(X, Y), 'ne': z3.Not(z3.fpEQ(X, Y)), 'lt': z3.fpLT(X, Y), 'le': z3.fpLEQ(X, Y), 'gt': z3.fpGT(X, Y), 'ge': z3.fpGEQ(X, Y)}
            if pred == 'ord': c = z3.Not(un)
            elif pred == 'uno': c = un
            elif pred[0] == 'o': c = z3.And(z3.Not(un), base[pred[1:]]) if pred != 'one' else z3.And(z3.Not(un), base['ne'])
            else: c = z3.Or(un, base[pred[1:]])
        else:
            base = {'eq': X == Y, 'ne': X != Y, 'lt': X < Y, 'le': X <= Y, 'gt': X > Y, 'ge': X >= Y}
            c = z3.BoolVal(pred == 'ord') if pred in ('ord', 'uno') else base[pred[1:]]
        return ('i', 1, z3.If(c, z3.BitVecVal(1, 1), z3.BitVecVal(0, 1)))
    def as_bool(s, v):
        if isinstance(v[2], int): return bool(v[2])
        return z3.simplify(v[2] == z3.BitVecVal(1, 1))
    # ---------------------------------------------------- running
    def run(s, entry):
        st = State(); f = s.mod.funcs[entry]; f.prepare()
        fr = Frame(f); fr.block = f.order[0]; st.frames.append(fr)
        work = [st]
        while work:
            st = work.pop()
            if s.stats['paths'] % 20 == 0: print('progress', s.stats, 'work', len(work), file=sys.stderr, flush=True)
            try:
                s.run_path(st, work)
            except Throw:
                s.stats['throws'] += 1; s.stats['paths'] += 1
            except PathEnd:
                s.stats['paths'] += 1
            s.stats['steps'] += st.steps
    def run_path(s, st, work):
        while True:
            fr = st.frames[-1]
            ins = fr.fn.blocks[fr.block][fr.ip]
            st.steps += 1
            if st.steps > s.max_steps: raise Unsupported('BOUND-EXCEEDED')
            try:
                s.step(st, fr, ins, work)
            except Fork as fk:
                for c, key, val in fk.alts[1:]:
                    t = st.clone(); t.pc.append(c); t.subst[key] = val; work.append(t)
                c, key, val = fk.alts[0]
                st.pc.append(c); st.subst[key] = val   # re-execute same instruction under constraint
            except (Unsupported, TypeError, KeyError, IndexError, AttributeError, ValueError) as e:
                raise Unsupported('%s: %s\n  in %s block %s (prev %s): %s' % (type(e).__name__, e, fr.fn.name[:90], fr.block, fr.prev, ins[:200]))
    def branch(s, st, work, cond, lt, lf):
        fr = st.frames[-1]
        def go(state, lab):
            f = state.frames[-1]; f.prev = f.block; f.block = lab; f.ip = 0
        if isinstance(cond, bool): go(st, lt if cond else lf); return
        rt, _ = s.check(st, [cond]); rf, _ = s.check(st, [z3.Not(cond)])
        if rt == z3.sat and rf == z3.sat:
            s.stats['forks'] += 1
            t = st.clone(); t.pc.append(z3.Not(cond)); go(t, lf); work.append(t)
            st.pc.append(cond); go(st, lt)
        elif rt == z3.sat: go(st, lt)
        elif rf == z3.sat: go(st, lf)
        else: raise PathEnd()
    def step(s, st, fr, ins, work):
        p = P(s.toks(ins), s.mod); regs = fr.regs
        dest = None
        if p.peek(1)[1] == '=' and p.peek()[0] in ('id', 'qid'):
            dest = p.next()[1][1:].strip('"'); p.next()
        op = p.next()[1]
        if op in ('tail', 'musttail', 'notail'): op = p.next()[1]
        def done(v=None):
            if dest is not None: regs[dest] = v
            fr.ip += 1
        if op in ('add', 'sub', 'mul', 'udiv', 'sdiv', 'urem', 'srem', 'shl', 'lshr', 'ashr', 'and', 'or', 'xor'):
            while p.peek()[1] in ('nuw', 'nsw', 'exact'): p.next()
            ty = p.ty(); a = s.value(st, p, ty); p.expect(','); b = s.value(st, p, ty); return done(s.ibin(op, a, b))
        if op in ('fadd', 'fsub', 'fmul', 'fdiv'):
            while p.peek()[0] == 'word' and not p.at_type(): p.next()
            ty = p.ty(); a = s.value(st, p, ty); p.expect(','); b = s.value(st, p, ty); return done(s.fbin(op, a, b))
        if op == 'fneg':
            ty = p.ty(); a = s.value(st, p, ty)
            return done(('f', -a[1]) if isinstance(a[1], float) else ('f', z3.fpNeg(a[1]) if MODE == 'fp' else -a[1]))
        if op == 'icmp':
            pred = p.next()[1]; ty = p.ty(); a = s.value(st, p, ty); p.expect(','); b = s.value(st, p, ty); return done(s.icmp(pred, a, b))
        if op == 'fcmp':
            while p.peek()[1] in ('fast', 'nnan', 'ninf', 'nsz', 'arcp', 'contract', 'afn', 'reassoc'): p.next()
            pred = p.next()[1]; ty = p.ty(); a = s.value(st, p, ty); p.expect(','); b = s.value(st, p, ty); return done(s.fcmp(pred, a, b))
        if op == 'alloca':
            ty = p.ty(); n = 1
            if p.accept(',') and p.at_type():
                nt = p.ty(); n = s.value(st, p, nt)[2]
            oid = st.alloc(s.mod.size(ty) * n, 'alloca:' + (dest or '')); fr.allocas.append(oid); return done(('p', oid, 0))
        if op == 'load':
            p.accept('volatile'); ty = p.ty(); p.expect(','); pt, ptr = s.tv(st, p); return done(s.load(st, ty, ptr))
        if op == 'store':
            p.accept('volatile'); ty, v = s.tv(st, p); p.expect(','); pt, ptr = s.tv(st, p); s.store(st, ty, v, ptr); return done()
        if op == 'getelementptr':
            p.accept('inbounds'); bt = p.ty(); p.expect(','); pt, base = s.tv(st, p); idx = []
            while p.accept(','):
                if p.peek()[0] == 'meta': break
                it, x = s.tv(st, p); idx.append(x)
            return done(s.gep(st, bt, base, idx))
        if op in ('bitcast', 'ptrtoint', 'inttoptr', 'addrspacecast'):
            ft, x = s.tv(st, p); p.expect('to'); tt = p.ty(); return done(s.cast(op, x, s.mod.resolve(ft), s.mod.resolve(tt)))
        if op in ('zext', 'sext', 'trunc'):
            ft, x = s.tv(st, p); p.expect('to'); tt = p.ty(); w = tt.a
            if x[0] == 'pi': return done(x)
            if isinstance(x[2], int):
                v = x[2] if op != 'sext' else to_signed(x[2], x[1]); return done(iv(w, v))
            if op == 'zext': return done(iv(w, z3.ZeroExt(w - x[1], x[2])))
            if op == 'sext': return done(iv(w, z3.SignExt(w - x[1], x[2])))
            return done(iv(w, z3.Extract(w-1, 0, x[2])))
        if op in ('sitofp', 'uitofp'):
            ft, x = s.tv(st, p); p.expect('to'); tt = p.ty()
            if isinstance(x[2], int): return done(('f', float(to_signed(x[2], x[1]) if op == 'sitofp' else x[2])))
            if MODE == 'fp': return done(('f', z3.fpSignedToFP(RNE, x[2], F64) if op == 'sitofp' else z3.fpUnsignedToFP(RNE, x[2], F64)))
            return done(('f', z3.ToReal(z3.BV2Int(x[2], op == 'sitofp'))))
        if op == 'select':
            ct, c = s.tv(st, p); p.expect(','); at, a = s.tv(st, p); p.expect(','); bt, b = s.tv(st, p)
            if isinstance(c[2], int): return done(a if c[2] else b)
            cb = s.as_bool(c)
            d_ = st.subst.get(cb.get_id())
            if d_ is not None: return done(a if d_ else b)
            if a[0] == 'i' and b[0] == 'i': return done(iv(a[1], z3.If(cb, bv(a), bv(b))))
            if a[0] == 'f' and b[0] == 'f': return done(('f', z3.If(cb, fz(a), fz(b))))
            raise Fork([(cb, cb.get_id(), True), (z3.Not(cb), cb.get_id(), False)])
        if op == 'phi':
            ty = p.ty(); val = None
            while True:
                p.expect('[')
                save = p.i
                # value may reference regs not defined on other paths: parse lazily
                depth = 0; j = p.i
                while not (p.t[j][1] == ',' and depth == 0): depth += (p.t[j][1] in '([{<') - (p.t[j][1] in ')]}>'); j += 1
                lab = p.t[j+1][1][1:].strip('"')
                if lab == fr.prev:
                    val = s.value(st, p, ty)
                p.i = j + 2; p.expect(']')
                if not p.accept(','): break
            # all phis of a block read the old values: we evaluate sequentially, which is fine unless a phi reads another phi of the same block
            return done(val)
        if op == 'br':
            if p.peek()[1] == 'label':
                p.next(); lab = p.next()[1][1:].strip('"'); fr.prev = fr.block; fr.block = lab; fr.ip = 0; return
            ct, c = s.tv(st, p); p.expect(','); p.expect('label'); lt = p.next()[1][1:].strip('"'); p.expect(','); p.expect('label'); lf = p.next()[1][1:].strip('"')
            cond = bool(c[2]) if isinstance(c[2], int) else s.as_bool(c)
            return s.branch(st, work, cond, lt, lf)
        if op == 'switch':
            ty, v = s.tv(st, p); p.expect(','); p.expect('label'); dflt = p.next()[1][1:].strip('"'); p.expect('[')
            cases = []
            while not p.accept(']'):
                ct = p.ty(); cv = s.value(st, p, ct); p.expect(','); p.expect('label'); cases.append((cv[2], p.next()[1][1:].strip('"')))
            if isinstance(v[2], int):
                lab = dict(cases).get(v[2], dflt); fr.prev = fr.block; fr.block = lab; fr.ip = 0; return
            key = v[2].get_id()
            if key in st.subst or ('dflt', key) in st.subst:
                lab = dict(cases).get(st.subst[key], dflt) if key in st.subst else dflt
                fr.prev = fr.block; fr.block = lab; fr.ip = 0; return
            raise Fork(s.enum_switch(st, v, cases))
        if op == 'ret':
            rv = None
            if p.peek()[1] != 'void': ty, rv = s.tv(st, p)
            for oid in fr.allocas: st.mem[oid].freed = True
            st.frames.pop()
            if not st.frames: raise PathEnd()
            caller = st.frames[-1]
            d, nxt = fr.ret_to
            if d is not None: caller.regs[d] = rv
            if nxt is None: caller.ip += 1
            else: caller.prev = caller.block; caller.block = nxt; caller.ip = 0
            return
        if op == 'unreachable': raise PathEnd()
        if op == 'resume': raise Throw()
        if op == 'landingpad': raise Unsupported('landingpad reached')
        if op in ('call', 'invoke'):
            return s.call(st, fr, p, dest, op, work)
        if op == 'extractvalue':
            ty, a = s.tv(st, p); v = a
            while p.accept(','): v = v[1][int(p.next()[1])]
            return done(v)
        if op == 'insertvalue':
            ty, a = s.tv(st, p); p.expect(','); et, e = s.tv(st, p); idx = []
            while p.accept(','): idx.append(int(p.next()[1]))
            def ins_(agg, idx):
                l = list(agg[1]) if agg[0] == 'agg' else list(s.zero_agg(ty, True)[1])
                l[idx[0]] = e if len(idx) == 1 else ins_(l[idx[0]], idx[1:]); return ('agg', l)
            return done(ins_(a, idx))
        if op == 'extractelement':
            ty, a = s.tv(st, p); p.expect(','); it, i = s.tv(st, p); return done(a[1][i[2]])
        if op == 'insertelement':
            ty, a = s.tv(st, p); p.expect(','); et, e = s.tv(st, p); p.expect(','); it, i = s.tv(st, p)
            l = list(a[1]) if a[0] == 'agg' else [('undef',)]*s.mod.resolve(ty).a; l[i[2]] = e; return done(('agg', l))
        raise Unsupported('opcode ' + op)
    def enum_switch(s, st, v, cases):
        key = v[2].get_id()
        alts = [(bv(v) == c, key, c) for c, _ in cases] + [(z3.And([bv(v) != c for c, _ in cases]), ('dflt', key), True)]
        out = []
        for a in alts:
            r, _ = s.check(st, [a[0]])
            if r == z3.sat: out.append(a)
        if not out: raise PathEnd()
        s.stats['forks'] += 1
        return out
    def call(s, st, fr, p, dest, op, work):
        while not p.at_type():                                        # cc, ret attrs
            w_ = p.next()[1]
            if w_ in ('dereferenceable', 'dereferenceable_or_null') and p.peek()[1] == '(':
                while p.next()[1] != ')': pass
        rty = p.ty()
        while p.peek()[0] == 'word': p.next()
        k, v = p.peek()
        if k in ('id', 'qid') and v[0] == '@':
            p.next(); callee = ('fn', v[1:].strip('"'))
        elif k in ('id', 'qid'):
            p.next(); callee = fr.regs[v[1:].strip('"')]
        else:
            callee = s.value(st, p, PTR(I8))
        p.expect('('); args = []
        if not p.accept(')'):
            while True:
                if p.peek()[0] == 'meta' or p.peek()[1] == 'metadata':
                    while p.peek()[1] not in (',', ')'): p.next()
                    args.append(None)
                else:
                    ty, a = s.tv(st, p); args.append(a)
                if p.accept(')'): break
                p.expect(',')
        nxt = None
        if op == 'invoke':
            while p.peek()[1] != 'to': p.next()
            p.next(); p.expect('label'); nxt = p.next()[1][1:].strip('"')
        if callee[0] != 'fn': raise Unsupported('indirect call through %r' % (callee,))
        name = callee[1]
        if name in s.mod.aliases: name = s.global_addr(st, name)[1]
        f = s.mod.funcs.get(name)
        def ret(v=None):
            if dest is not None: fr.regs[dest] = v
            if nxt is None: fr.ip += 1
            else: fr.prev = fr.block; fr.block = nxt; fr.ip = 0
        h = s.extern(name)
        if h is not None: return ret(h(st, args, work))
        if f is None: raise Unsupported('external ' + name)
        f.prepare(); nf = Frame(f); nf.block = f.order[0]; nf.ret_to = (dest, nxt)
        for pn, a in zip(f.pnames, args): nf.regs[pn] = a
        st.frames.append(nf)
    # ---------------------------------------------------- externals / intrinsics
    def extern(s, name):
        if name.startswith('llvm.lifetime') or name.startswith('llvm.experimental.noalias') or name.startswith('llvm.dbg') or name == 'llvm.assume': return lambda st, a, w: None
        if name.startswith('llvm.memcpy') or name.startswith('llvm.memmove'):
            def f(st, a, w):
                s.memcpy(st, a[0], a[1], s.conc(st, a[2]))
            return f
        if name.startswith('llvm.memset'):
            def f(st, a, w):
                n = s.conc(st, a[2])
                if n == 0: return
                if a[1][2] != 0: raise Unsupported('memset nonzero')
                o = st.mem[a[0][1]]; off = a[0][2]
                if off + n > o.size: raise Unsupported('OOB memset')
                for k in [k for k in o.cells if k < off + n and k + o.cells[k][0] > off]: del o.cells[k]
                o.zero.append((off, off + n))
            return f
        if name.startswith('llvm.fabs'):
            return lambda st, a, w: ('f', abs(a[0][1])) if isinstance(a[0][1], float) else ('f', z3.fpAbs(a[0][1]) if MODE == 'fp' else z3.If(a[0][1] < 0, -a[0][1], a[0][1]))
        if name.startswith('llvm.umax') or name.startswith('llvm.umin') or name.startswith('llvm.smax') or name.startswith('llvm.smin'):
            kind = name.split('.')[1]
            def f(st, a, w):
                c = s.icmp({'umax': 'ugt', 'umin': 'ult', 'smax': 'sgt', 'smin': 'slt'}[kind], a[0], a[1])
                if isinstance(c[2], int): return a[0] if c[2] else a[1]
                return iv(a[0][1], z3.If(s.as_bool(c), bv(a[0]), bv(a[1])))
            return f
        if name == 'llvm.trap':
            def f(st, a, w): raise PathEnd()
            return f
        if name in ('_Znwm', '_Znam', 'malloc'):
            def f(st, a, w):
                return ('p', st.alloc(s.conc(st, a[0]), 'heap'), 0)
            return f
        if name in ('_ZdlPv', '_ZdaPv', 'free', '_ZdlPvm'):
            def f(st, a, w):
                if a[0][0] == 'p' and a[0][1] is not None: st.mem[a[0][1]].freed = True
            return f
        if name in ('__cxa_throw', '__cxa_allocate_exception', '_ZSt20__throw_length_errorPKc', '_ZSt17__throw_bad_allocv', '_ZSt28__throw_bad_array_new_lengthv', '__cxa_pure_virtual',
                    '_ZNSt7__cxx1118basic_stringstreamIcSt11char_traitsIcESaIcEEC1Ev'):
            def f(st, a, w): raise Throw()
            return f
        if name in ('exp', 'erfc', 'sin', 'cos', 'sqrt', 'atan2', 'acos', 'tan'):
            def f(st, a, w):
                if all(isinstance(x[1], float) for x in a): return ('f', getattr(math, name)(*[x[1] for x in a]))
                srt = F64 if MODE == 'fp' else z3.RealSort()
                uf = s.ufs.setdefault(name, z3.Function('uf_' + name, *([srt]*len(a) + [srt])))
                return ('f', uf(*[fz(x) for x in a]))
            return f
        if 'polygon_contains_pointERK' in name: return lambda st, a, w: s.fresh_val(I1, 'polygonP')
        if name == 'sym_uf2':
            def f(st, a, w):
                srt = F64 if MODE == 'fp' else z3.RealSort()
                uf = s.ufs.setdefault(name, z3.Function('uf2', z3.BitVecSort(32), srt, srt, srt))
                return ('f', uf(bv(a[0]), fz(a[1]), fz(a[2])))
            return f
        if name == 'sym_f64': return lambda st, a, w: s.fresh_val(DOUBLE, s.cstr(st, a[0]))
        if name == 'sym_u32': return lambda st, a, w: s.fresh_val(I32, s.cstr(st, a[0]))
        if name == 'sym_bool': return lambda st, a, w: s.fresh_val(I1, s.cstr(st, a[0]))
        if name == 'sym_assume':
            def f(st, a, w):
                c = a[0]
                if isinstance(c[2], int):
                    if not c[2]: raise PathEnd()
                    return
                st.pc.append(s.as_bool(c))
                if s.check(st)[0] != z3.sat: raise PathEnd()
            return f
        if name == 'sym_assert':
            def f(st, a, w):
                c = a[0]; what = s.cstr(st, a[1])
                s.stats.setdefault('asserts', 0); s.stats['asserts'] += 1
                if isinstance(c[2], int):
                    if not c[2]: s.violations.append((what, 'concrete', list(st.log)))
                    return
                r, sol = s.check(st, [z3.Not(s.as_bool(c))])
                if r == z3.sat: s.violations.append((what, sol.model(), list(st.log)))
                elif r != z3.unsat: s.violations.append((what, 'UNDECIDED', []))
                st.pc.append(s.as_bool(c))
            return f
        if name == 'sym_uf_slot':
            def f(st, a, w):
                srt = F64 if MODE == 'fp' else z3.RealSort()
                uf = s.ufs.setdefault(name, z3.Function('uf_slot', *([z3.BitVecSort(32)]*5 + [srt])))
                return ('f', uf(*[bv(x) for x in a]))
            return f
        return None
    def cstr(s, st, p):
        o = st.mem[p[1]]; out = ''; off = p[2]
        while True:
            c = o.cells[off][1][2]
            if c == 0: return out
            out += chr(c); off += 1

if __name__ == '__main__':
    mod = Module(open(sys.argv[1]).read()); ex = Exec(mod)
    if len(sys.argv) > 3: MODE = sys.argv[3]
    t = time.time()
    try:
        ex.run(sys.argv[2])
    except Unsupported as e:
        print('UNSUPPORTED:', e)
    print('stats', ex.stats, 'wall', round(time.time()-t, 2))
    print('violations', len(ex.violations))
    for v in ex.violations[:3]: print('  ', v[0], str(v[1])[:600], v[2][:3])
