"""Value representation and small helpers shared by the executor modules.

Values:
  ('i', w, int | z3 BitVec)       integer of width w
  ('f', float | z3 expr)          double: python float when concrete, else z3 FP (modes fp/fpu) or Real (mode real)
  ('p', objid | None, offset)     pointer with concrete object and byte offset; NULL = ('p', None, 0)
  ('fn', name)                    function pointer
  ('pi', ptrvalue)                pointer viewed as an integer (ptrtoint / i64 load of a pointer cell)
  ('fi', fvalue)                  double viewed as an i64 (i64 load of a double cell; clang copies doubles that way)
  ('agg', [values])               struct / array / vector
  ('undef',)
"""
import struct, math
import z3

RNE = z3.RNE()
F64 = z3.Float64()

class Throw(Exception): pass             # C++ exception leaves the code under test
class PathEnd(Exception): pass           # path finished / infeasible / assume(false)
class Unsupported(Exception): pass       # encoding error: obligation cannot be decided
class MemViolation(Exception): pass      # out-of-bounds / use-after-free on a feasible path
class BoundExceeded(Exception): pass     # iteration cap reached on a feasible path
class Fork(Exception):
    def __init__(s, alts): s.alts = alts  # [(z3 constraint, subst key, chosen value)]

def mask(w): return (1 << w) - 1
def iv(w, v):
    if isinstance(v, int): return ('i', w, v & mask(w))
    return ('i', w, v)
def to_signed(v, w): return v - (1 << w) if v >> (w - 1) else v
NULL = ('p', None, 0)
UNDEF = ('undef',)

def d2bits(x): return struct.unpack('<Q', struct.pack('<d', x))[0]
def bits2d(b): return struct.unpack('<d', struct.pack('<Q', b & mask(64)))[0]

def bvz(x):
    """('i',w,v) -> z3 BitVec"""
    return z3.BitVecVal(x[2], x[1]) if isinstance(x[2], int) else x[2]

def is_conc_int(x): return x[0] == 'i' and isinstance(x[2], int)
def is_conc_f(x): return x[0] == 'f' and isinstance(x[1], float)

def fdiv_conc(x, y):
    try: return x / y
    except ZeroDivisionError:
        if x != x or x == 0: return float('nan')
        return math.copysign(float('inf'), x) * math.copysign(1.0, y)

def zbool(c):
    """z3 Bool -> i1 value"""
    if z3.is_true(c): return ('i', 1, 1)
    if z3.is_false(c): return ('i', 1, 0)
    return ('i', 1, z3.If(c, z3.BitVecVal(1, 1), z3.BitVecVal(0, 1)))

def as_cond(v):
    """i1 value -> python bool or z3 Bool"""
    x = v[2]
    if isinstance(x, int): return bool(x)
    # recognise If(c,1,0) produced by zbool
    if z3.is_app_of(x, z3.Z3_OP_ITE):
        a, b = x.arg(1), x.arg(2)
        if z3.is_bv_value(a) and z3.is_bv_value(b):
            if a.as_long() == 1 and b.as_long() == 0: return x.arg(0)
            if a.as_long() == 0 and b.as_long() == 1: return z3.Not(x.arg(0))
    return x == z3.BitVecVal(1, 1)
