"""Minimal LLVM-14 textual IR front end (typed pointers): types, data layout, globals,
aliases, functions split into basic blocks.  Instruction decoding lives in llsym.py."""
import re, sys

# ---------------------------------------------------------------- types
class Ty:
    __slots__ = ('k', 'a', 'b', 'packed', 'name', 'sz', 'al', 'res', 'offs')
    def __init__(s, k, a=None, b=None, packed=False, name=None):
        s.k, s.a, s.b, s.packed, s.name = k, a, b, packed, name
        s.sz = s.al = s.res = s.offs = None
    def __repr__(s):
        if s.k == 'int': return 'i%d' % s.a
        if s.k in ('double', 'float', 'void', 'label', 'metadata', 'x86_fp80'): return s.k
        if s.k == 'ptr': return '%r*' % (s.a,)
        if s.k == 'arr': return '[%d x %r]' % (s.a, s.b)
        if s.k == 'vec': return '<%d x %r>' % (s.a, s.b)
        if s.k == 'named': return '%' + s.name
        if s.k == 'struct': return '{' + ', '.join(map(repr, s.a)) + '}'
        if s.k == 'fn': return 'fn'
        return s.k

VOID = Ty('void'); DOUBLE = Ty('double'); FLOAT = Ty('float')
def INT(n): return Ty('int', n)
I1, I8, I32, I64 = INT(1), INT(8), INT(32), INT(64)
def PTR(t): return Ty('ptr', t)

TOK = re.compile(r'''\s*(?:
    (?P<str>c"(?:[^"\\]|\\.)*") |
    (?P<qid>[%@]"(?:[^"\\]|\\.)*") |
    (?P<id>[%@][-\w.$]+) |
    (?P<meta>![-\w.]*(?:\([^)]*\))?) |
    (?P<attr>\#\d+) |
    (?P<hex>0x[KLMHR]?[0-9A-Fa-f]+) |
    (?P<num>-?\d+\.\d*(?:[eE][-+]?\d+)?|-?\d+) |
    (?P<word>[A-Za-z_][\w.]*) |
    (?P<sym>\.\.\.|<\{|\}>|[()\[\]{}<>,=*:])
)''', re.X)

def tokenize(s):
    out = []; i = 0; n = len(s)
    while i < n:
        m = TOK.match(s, i)
        if not m:
            if s[i:].strip() == '' : break
            if s[i] == ';': break
            raise ValueError('tokenize: %r' % s[i:i+40])
        i = m.end()
        kind = m.lastgroup
        out.append((kind, m.group(kind)))
    return out

class P:
    """recursive descent over a token list"""
    def __init__(s, toks, mod): s.t, s.i, s.mod = toks, 0, mod
    def peek(s, k=0): return s.t[s.i+k] if s.i+k < len(s.t) else (None, None)
    def next(s): x = s.t[s.i]; s.i += 1; return x
    def accept(s, v):
        if s.peek()[1] == v: s.i += 1; return True
        return False
    def expect(s, v):
        x = s.next()
        if x[1] != v: raise ValueError('expected %r got %r at %d in %r' % (v, x, s.i, ' '.join(t[1] for t in s.t[max(0,s.i-8):s.i+4])))
    def at_type(s):
        k, v = s.peek()
        if k == 'word': return v in ('void','double','float','label','metadata','x86_fp80','half','ptr','opaque','token') or re.match(r'i\d+$', v) is not None
        if k in ('id','qid'): return v[0] == '%' and s.is_type_name(v)
        return v in ('[', '{', '<', '<{')
    def is_type_name(s, v):
        return v[1:].strip('"') in s.mod.named or v[1:] in s.mod.named
    def ty(s):
        k, v = s.next()
        if k == 'word':
            if v in ('void','double','float','label','metadata','x86_fp80','half','token'): t = Ty(v)
            elif v == 'opaque': t = Ty('opaque')
            else:
                m = re.match(r'i(\d+)$', v)
                if not m: raise ValueError('type? %r' % v)
                t = INT(int(m.group(1)))
        elif k in ('id','qid'):
            t = Ty('named', name=v[1:].strip('"'))
        elif v == '[':
            n = int(s.next()[1]); s.expect('x'); e = s.ty(); s.expect(']'); t = Ty('arr', n, e)
        elif v == '<' :
            n = int(s.next()[1]); s.expect('x'); e = s.ty(); s.expect('>'); t = Ty('vec', n, e)
        elif v in ('{', '<{'):
            packed = v == '<{'; close = '}>' if packed else '}'
            fs = []
            if not s.accept(close):
                while True:
                    fs.append(s.ty())
                    if s.accept(close): break
                    s.expect(',')
            t = Ty('struct', fs, packed=packed)
        else:
            raise ValueError('type? %r' % (v,))
        while True:
            if s.accept('*'): t = PTR(t)
            elif s.peek()[1] == '(' and s.looks_like_fnty():
                s.next(); args = []
                if not s.accept(')'):
                    while True:
                        if s.accept('...'): args.append('...')
                        else: args.append(s.ty())
                        if s.accept(')'): break
                        s.expect(',')
                t = Ty('fn', t, args)
            else: break
        return t
    def looks_like_fnty(s):
        # a '(' directly after a type, in type position, followed by type/')'/'...'
        k, v = s.peek(1)
        if v in (')', '...'): return True
        save = s.i; s.i += 1
        ok = s.at_type(); s.i = save
        return ok

# ---------------------------------------------------------------- module
class Func:
    def __init__(s, name, retty, params, body_lines):
        s.name, s.retty, s.params, s.lines = name, retty, params, body_lines
        s.blocks = None   # label -> list of instruction strings
        s.order = None
    def prepare(s):
        if s.blocks is not None: return
        blocks = {}; order = []
        # entry label number = number of unnamed params... find implicit numbering
        cur = None
        n_unnamed = sum(1 for (_, nm) in s.params if nm is None or nm.isdigit())
        cur = str(n_unnamed)  # implicit entry label
        blocks[cur] = []; order.append(cur)
        for ln in s.lines:
            t = ln.strip()
            if not t or t.startswith(';'): continue
            m = re.match(r'^("[^"]+"|[-\w.$]+):', t)
            if m and not t.startswith('%'):
                cur = m.group(1).strip('"'); blocks[cur] = []; order.append(cur); continue
            blocks[cur].append(t)
        # merge continuation lines (invoke ... \n to label ..., switch [...], landingpad clauses)
        for b in blocks:
            merged = []
            for t in blocks[b]:
                if merged and (t.startswith('to label') or t.startswith('cleanup') or t.startswith('catch') or t.startswith('filter')
                               or merged[-1].rstrip().endswith('[') and not merged[-1].lstrip().startswith('%') or
                               (merged[-1].lstrip().startswith('switch') and ']' not in merged[-1])):
                    merged[-1] += ' ' + t
                else: merged.append(t)
            blocks[b] = merged
        if not blocks[order[0]] and len(order) > 1:
            del blocks[order[0]]; order.pop(0)
        s.blocks, s.order = blocks, order

class Module:
    def __init__(s, text):
        s.named = {}      # name -> Ty or None(opaque)
        s.globals = {}    # name -> (ty, init_tokens or None, is_const)
        s.aliases = {}
        s.funcs = {}
        s.decls = set()
        s._parse(text)
    def _parse(s, text):
        lines = text.split('\n')
        # pass 1: named types (names first so that at_type works)
        for ln in lines:
            m = re.match(r'^(%"[^"]+"|%[-\w.$]+) = type ', ln)
            if m: s.named[m.group(1)[1:].strip('"')] = None
        for ln in lines:
            m = re.match(r'^(%"[^"]+"|%[-\w.$]+) = type (.*)$', ln)
            if m:
                nm = m.group(1)[1:].strip('"')
                if m.group(2).strip() == 'opaque': s.named[nm] = Ty('opaque'); continue
                s.named[nm] = P(tokenize(m.group(2)), s).ty()
        i = 0; n = len(lines)
        while i < n:
            ln = lines[i]
            if ln.startswith('define '):
                j = i
                while lines[j] != '}': j += 1
                s._func(ln, lines[i+1:j]); i = j+1; continue
            if ln.startswith('declare '):
                m = re.search(r'@("[^"]+"|[-\w.$]+)\(', ln)
                if m: s.decls.add(m.group(1).strip('"'))
            elif ln.startswith('@'):
                s._global(ln)
            i += 1
    def _global(s, ln):
        m = re.match(r'^@("[^"]+"|[-\w.$]+) = (.*)$', ln)
        name = m.group(1).strip('"'); rest = m.group(2)
        toks = tokenize(rest)
        p = P(toks, s)
        # skip linkage etc.
        while p.peek()[1] not in ('global', 'constant', 'alias', None): p.next()
        kw = p.next()[1]
        if kw == 'alias':
            p.ty(); p.expect(',')
            # aliasee: typed constant
            s.aliases[name] = toks[p.i:]
            return
        ty = p.ty()
        init = toks[p.i:]
        s.globals[name] = (ty, init, kw == 'constant')
    def _func(s, header, body):
        m = re.match(r'^define (.*?)@("[^"]+"|[-\w.$]+)\(', header)
        if not m: raise ValueError('func header: ' + header[:120])
        pre, name = m.group(1), m.group(2).strip('"')
        i = m.end(); depth = 1; j = i; inq = False
        while depth:
            c = header[j]
            if c == '"': inq = not inq
            elif not inq: depth += (c == '(') - (c == ')')
            j += 1
        params = header[i:j-1]
        toks = tokenize(pre); p = P(toks, s)
        while not p.at_type(): p.next()
        retty = p.ty()
        ptoks = tokenize(params); p = P(ptoks, s); ps = []
        while p.peek()[0] is not None:
            if p.accept('...'): break
            t = p.ty(); nm = None
            while p.peek()[0] is not None and p.peek()[1] != ',':
                k, v = p.next()
                if k in ('id', 'qid') and v[0] == '%': nm = v[1:].strip('"')
                elif v == '(':   # attribute args like dereferenceable(24) / align 8
                    depth = 1
                    while depth:
                        x = p.next()[1]
                        depth += (x == '(') - (x == ')')
            ps.append((t, nm)); p.accept(',')
        # number unnamed params
        cnt = 0; ps2 = []
        for t, nm in ps:
            if nm is None: ps2.append((t, None, str(cnt))); cnt += 1
            else: ps2.append((t, nm, nm))
        f = Func(name, retty, [(t, nm) for t, nm, _ in ps2], body)
        f.pnames = [x[2] for x in ps2]
        s.funcs[name] = f

    # ---- layout
    def resolve(s, t):
        if t.k != 'named': return t
        if t.res is not None: return t.res
        t0 = t
        while t.k == 'named':
            r = s.named.get(t.name)
            if r is None: raise ValueError('opaque type ' + t.name)
            t = r
        t0.res = t
        return t
    def align(s, t):
        t = s.resolve(t)
        if t.al is None: t.al = s._align(t)
        return t.al
    def _align(s, t):
        if t.k == 'int':
            b = (t.a + 7)//8; a = 1
            while a < b: a *= 2
            return min(a, 16)
        if t.k == 'double': return 8
        if t.k == 'float': return 4
        if t.k == 'ptr': return 8
        if t.k == 'x86_fp80': return 16
        if t.k == 'arr': return s.align(t.b)
        if t.k == 'vec': return min(16, s.size(t))
        if t.k == 'struct':
            if t.packed: return 1
            return max([s.align(f) for f in t.a] or [1])
        raise ValueError('align ' + repr(t))
    def size(s, t):
        t = s.resolve(t)
        if t.sz is None: t.sz = s._size(t)
        return t.sz
    def _size(s, t):
        if t.k == 'int':
            b = (t.a + 7)//8; a = 1
            while a < b: a *= 2
            return a
        if t.k == 'double': return 8
        if t.k == 'float': return 4
        if t.k == 'ptr': return 8
        if t.k == 'x86_fp80': return 16
        if t.k == 'arr': return t.a * s.size(t.b)
        if t.k == 'vec': return t.a * s.size(t.b)
        if t.k == 'struct':
            off = 0
            for f in t.a:
                if not t.packed:
                    a = s.align(f); off = (off + a - 1)//a*a
                off += s.size(f)
            if not t.packed:
                a = s.align(t); off = (off + a - 1)//a*a
            return off
        if t.k == 'fn': return 1
        raise ValueError('size ' + repr(t))
    def field_offset(s, t, idx):
        t = s.resolve(t)
        if t.offs is None:
            offs = []; off = 0
            for i, f in enumerate(t.a):
                if not t.packed:
                    a = s.align(f); off = (off + a - 1)//a*a
                offs.append(off)
                off += s.size(f)
            t.offs = offs
        return t.offs[idx]

if __name__ == '__main__':
    import time
    t = time.time(); m = Module(open(sys.argv[1]).read())
    print('parsed', len(m.funcs), 'functions', len(m.globals), 'globals', len(m.named), 'types', len(m.aliases), 'aliases in', round(time.time()-t, 2), 's')
    for nm in list(m.funcs)[:5]:
        f = m.funcs[nm]; f.prepare(); print(nm[:60], f.retty, len(f.params), len(f.blocks))
    w = Ty('named', name='class.WorldBuilder::World')
    print('sizeof(World) =', m.size(w))
