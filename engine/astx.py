"""astx: index arithmetic of the tool mains from the Clang AST (JSON).  Regenerated from /repo on every run.
Only a thin reading of the code: stream insertions, subscript expressions, for/switch structure.  Unknown shapes raise AstxError
(reported as ENCODING-ERROR, never as a pass)."""
import json, subprocess, os, re
import build

class AstxError(Exception): pass

def dump_main(src, extra=()):
    cmd = ['clang++-14', '-std=c++14', '-fsyntax-only', '-DNDEBUG', '-Wno-everything', '-Xclang', '-ast-dump=json', '-Xclang', '-ast-dump-filter=main'] + build.incs() + list(extra) + [src]
    r = subprocess.run(cmd, capture_output=True, text=True)
    if r.returncode != 0: raise AstxError('clang failed: ' + r.stderr[-800:])
    dec = json.JSONDecoder(); pos = 0; txt = r.stdout; main = None
    while pos < len(txt):
        while pos < len(txt) and txt[pos] in ' \n\r\t': pos += 1
        if pos >= len(txt): break
        o, pos = dec.raw_decode(txt, pos)
        if o.get('kind') == 'FunctionDecl' and o.get('name') == 'main' and any(c.get('kind') == 'CompoundStmt' for c in o.get('inner', [])): main = o
    if main is None: raise AstxError('no definition of main found in ' + src)
    return main

PASS = {'ImplicitCastExpr', 'ParenExpr', 'CStyleCastExpr', 'CXXStaticCastExpr', 'MaterializeTemporaryExpr', 'ExprWithCleanups', 'CXXFunctionalCastExpr', 'ConstantExpr', 'CXXBindTemporaryExpr', 'CXXConstructExpr'}

def strip(n):
    while n.get('kind') in PASS and len(n.get('inner', [])) == 1: n = n['inner'][0]
    return n

def callee_name(n):
    """name of the operator/function a CXXOperatorCallExpr / CallExpr calls"""
    c = strip(n['inner'][0])
    if c.get('kind') == 'DeclRefExpr': return c['referencedDecl'].get('name')
    if c.get('kind') == 'MemberExpr': return c.get('name')
    return None

def expr(n):
    """AST expression -> nested tuple term: ('int',v) ('var',name) ('bin',op,a,b) ('idx',base,index) ('size',base) ('str',s) ('chr',c) ('call',name,args)"""
    n = strip(n); k = n.get('kind')
    if k == 'IntegerLiteral': return ('int', int(n['value']))
    if k == 'FloatingLiteral': return ('float', n['value'])
    if k == 'CXXBoolLiteralExpr': return ('int', int(bool(n['value'])))
    if k == 'StringLiteral': return ('str', json.loads(n['value']) if n['value'].startswith('"') else n['value'])
    if k == 'CharacterLiteral': return ('chr', chr(int(n['value'])))
    if k == 'DeclRefExpr': return ('var', n['referencedDecl'].get('name'))
    if k == 'BinaryOperator': return ('bin', n['opcode'], expr(n['inner'][0]), expr(n['inner'][1]))
    if k == 'CompoundAssignOperator': return ('cassign', n['opcode'], expr(n['inner'][0]), expr(n['inner'][1]))
    if k == 'UnaryOperator': return ('un', n['opcode'], expr(n['inner'][0]))
    if k == 'CXXOperatorCallExpr':
        nm = callee_name(n)
        if nm == 'operator[]': return ('idx', expr(n['inner'][1]), expr(n['inner'][2]))
        if nm == 'operator<<': return ('shl', expr(n['inner'][1]), expr(n['inner'][2]))
        return ('call', nm, [expr(x) for x in n['inner'][1:]])
    if k == 'ArraySubscriptExpr': return ('idx', expr(n['inner'][0]), expr(n['inner'][1]))
    if k == 'CXXMemberCallExpr':
        m = strip(n['inner'][0])
        if m.get('kind') == 'MemberExpr' and m.get('name') == 'size': return ('size', expr(m['inner'][0]))
        return ('call', m.get('name'), [expr(m['inner'][0])] + [expr(x) for x in n['inner'][1:]])
    if k == 'CallExpr': return ('call', callee_name(n), [expr(x) for x in n['inner'][1:]])
    if k == 'ConditionalOperator': return ('cond', expr(n['inner'][0]), expr(n['inner'][1]), expr(n['inner'][2]))
    if k == 'MemberExpr': return ('member', n.get('name'), expr(n['inner'][0]))
    if k == 'InitListExpr': return ('list', [expr(x) for x in n.get('inner', [])])
    if k in ('CXXStdInitializerListExpr', 'CXXTemporaryObjectExpr', 'CXXConstructExpr'): return ('list', [expr(x) for x in n.get('inner', [])])
    if k == 'LambdaExpr': return ('lambda', n)
    if k == 'CXXThisExpr': return ('var', 'this')
    if k == 'CXXDefaultArgExpr': return ('default',)
    return ('?', k)

def flatten_stream(t):
    """('shl', ('shl', cout, a), b) -> [cout, a, b]"""
    out = []
    while t[0] == 'shl': out.append(t[2]); t = t[1]
    out.append(t); out.reverse(); return out

def walk_stmts(n, visit):
    """structured walk: calls visit(kind, payload, recurse) for For / Switch / Case / If / Expr / Decl statements"""
    k = n.get('kind')
    if k == 'CompoundStmt':
        return ('seq', [walk_stmts(c, visit) for c in n.get('inner', [])])
    if k == 'ForStmt':
        inner = n['inner']; init, cond, inc, body = inner[0], inner[2], inner[3], inner[4]
        var = None; lo = None
        if init.get('kind') == 'DeclStmt':
            vd = init['inner'][0]; var = vd.get('name'); lo = expr(vd['inner'][0]) if vd.get('inner') else None
        c = expr(cond) if cond.get('kind') else None
        return ('for', var, lo, c, walk_stmts(body, visit))
    if k == 'CXXForRangeStmt':
        rng = None
        for c in n.get('inner', []):
            if c.get('kind') == 'DeclStmt':
                for vd in c.get('inner', []):
                    if vd.get('kind') == 'VarDecl' and vd.get('name', '').startswith('__range') and vd.get('inner'): rng = expr(vd['inner'][-1])
        return ('forrange', rng, walk_stmts(n['inner'][-1], visit))
    if k == 'WhileStmt': return ('while', expr(n['inner'][0]) if n['inner'][0].get('kind') else None, walk_stmts(n['inner'][-1], visit))
    if k == 'IfStmt':
        inner = [c for c in n['inner']]
        cond = expr(inner[0]); then = walk_stmts(inner[1], visit); els = walk_stmts(inner[2], visit) if len(inner) > 2 else ('seq', [])
        return ('if', cond, then, els)
    if k == 'SwitchStmt':
        return ('switch', expr(n['inner'][0]), walk_stmts(n['inner'][-1], visit))
    if k == 'CaseStmt':
        val = expr(n['inner'][0]); return ('case', val, walk_stmts(n['inner'][-1], visit))
    if k == 'DefaultStmt': return ('default', walk_stmts(n['inner'][-1], visit))
    if k == 'BreakStmt': return ('break',)
    if k == 'ContinueStmt': return ('continue',)
    if k == 'ReturnStmt': return ('return',)
    if k == 'DeclStmt':
        ds = []
        for vd in n.get('inner', []):
            if vd.get('kind') == 'VarDecl': ds.append((vd.get('name'), expr(vd['inner'][-1]) if vd.get('inner') else None))
        return ('decl', ds)
    if k in ('NullStmt',): return ('seq', [])
    if k in ('CXXTryStmt',): return ('seq', [walk_stmts(c, visit) for c in n.get('inner', [])])
    if k in ('CXXCatchStmt',): return ('seq', [])
    if k == 'AttributedStmt': return walk_stmts(n['inner'][-1], visit)
    return ('expr', expr(n))

def main_tree(src, extra=()):
    m = dump_main(src, extra)
    body = [c for c in m['inner'] if c.get('kind') == 'CompoundStmt'][0]
    return walk_stmts(body, None)

def find(tree, pred, out=None):
    """all subtrees (statement level) satisfying pred, in order"""
    if out is None: out = []
    if pred(tree): out.append(tree)
    t = tree[0]
    if t == 'seq':
        for c in tree[1]: find(c, pred, out)
    elif t == 'for': find(tree[4], pred, out)
    elif t in ('forrange', 'while'): find(tree[2], pred, out)
    elif t == 'if': find(tree[2], pred, out); find(tree[3], pred, out)
    elif t == 'switch': find(tree[2], pred, out)
    elif t == 'case': find(tree[2], pred, out)
    elif t == 'default': find(tree[1], pred, out)
    return out

def term_str(t):
    k = t[0]
    if k == 'int': return str(t[1])
    if k == 'var': return t[1]
    if k == 'bin': return '(%s %s %s)' % (term_str(t[2]), t[1], term_str(t[3]))
    if k == 'idx': return '%s[%s]' % (term_str(t[1]), term_str(t[2]))
    if k == 'size': return '%s.size' % term_str(t[1])
    if k == 'str': return repr(t[1])
    if k == 'chr': return repr(t[1])
    if k == 'un': return '(%s%s)' % (t[1], term_str(t[2]))
    return str(t)[:60]

def to_z3(t, env):
    """integer term -> z3 Int; env maps variable names (and 'output.size') to z3 terms"""
    import z3
    k = t[0]
    if k == 'int': return z3.IntVal(t[1])
    if k == 'var':
        if t[1] not in env: raise AstxError('unbound variable in index expression: ' + t[1])
        return env[t[1]]
    if k == 'size':
        key = term_str(t)
        if key not in env: raise AstxError('unbound size: ' + key)
        return env[key]
    if k == 'bin':
        a, b = to_z3(t[2], env), to_z3(t[3], env)
        if t[1] == '+': return a + b
        if t[1] == '-': return a - b
        if t[1] == '*': return a * b
        raise AstxError('operator in index expression: ' + t[1])
    raise AstxError('index expression shape: ' + term_str(t))
