"""Obligation runner: build IR from /repo, run obligations (one process per case), validate against the native build,
replay counterexamples, match known findings, write evidence, print VIOLATION / KNOWN-FINDING lines."""
import sys, os, json, time, importlib, multiprocessing, subprocess, re, traceback, resource, random
sys.path.insert(0, os.path.dirname(os.path.abspath(__file__)))
import build
from vals import *

VERIF = build.VERIF
sys.path.insert(0, os.path.join(VERIF, 'obligations'))
sys.setrecursionlimit(20000)

def load_spec(prop):
    m = importlib.import_module(prop)
    return m

_MODS = {}
def get_module(ll):
    from llir import Module
    m = _MODS.get(ll)
    if m is None: m = _MODS[ll] = Module(open(ll).read())
    return m

def fmt_inputs_file(inputs, path):
    with open(path, 'w') as f:
        for name, kind, val, _ in inputs:
            name = name.replace(' ', '_') or '_'
            if kind == 'f64': f.write('%s f64 %016x\n' % (name, d2bits(float(val))))
            else: f.write('%s %s %d\n' % (name, kind, int(val)))

def run_native(binary, entry, inputs, case, scratch, tag):
    p = os.path.join(scratch, 'in_%s_%d.txt' % (tag, os.getpid())); fmt_inputs_file(inputs, p)
    try:
        r = subprocess.run([binary, entry, p] + [str(c) for c in case], capture_output=True, text=True, timeout=60)
        lines = [l for l in r.stdout.strip().split('\n') if l]
        if r.returncode not in (0, 1): lines.append('EXIT %d %s' % (r.returncode, r.stderr.strip()[-200:]))
    except subprocess.TimeoutExpired:
        lines = ['TIMEOUT']
    return lines

def conc_trace(ll, ob, case, inputs):
    from symex import Exec
    ex = Exec(get_module(ll), mode='conc', overrides=ob.get('py_overrides'), conc_inputs=[(n, k, v) for n, k, v, _ in inputs], max_steps=ob.get('max_steps', 400000))
    out = []
    try:
        ex.run(ob['entry'], [iv(64, c) for c in case])
        last = getattr(ex, 'last_outcome', 'END')
    except Unsupported as e:
        return ['ENGINE-UNSUPPORTED ' + str(e).split('\n')[0][:200]]
    for t in ex.trace:
        if t[0] == 'assert': out.append('assert %s %d' % (t[1], t[2]))
        else:
            v = t[2]
            if isinstance(v, float): out.append('out %s %s' % (t[1], 'nan' if v != v else '%016x' % d2bits(v)))
            else: out.append('out %s %d' % (t[1], v))
    out.append({'END': 'END', 'THROW': 'THROW', 'ASSUME-FALSE': 'ASSUME-FALSE'}.get(last, last))
    return out

def run_case(task):
    prop, oid, case, ll, native, scratch, tier = task
    t0 = time.time()
    spec = load_spec(prop); ob = [o for o in spec.OBLIGATIONS if o['id'] == oid][0]
    res = dict(id=oid, case=list(case), verdict='PROVED', violations=[], undecided=[], stats={}, reached={}, called=[], axioms=[], validated=0, validation_mismatch=[], wall=0, samples=[])
    try:
        resource.setrlimit(resource.RLIMIT_AS, (12 << 30, 12 << 30))
    except Exception: pass
    from symex import Exec
    try:
        mod = get_module(ll)
        ex = Exec(mod, mode=ob['mode'], overrides=ob.get('py_overrides'), max_steps=ob.get('max_steps', 400000), qtimeout_ms=ob.get('qtimeout_ms', 60000 if tier == 'quick' else 300000))
        ex.keep_models = ob.get('validate', 6)
        ex.domain_checks = ob.get('domain_checks', False)
        ex.domain_fdiv = ob.get('domain_fdiv', True)
        ex.record_reads = ob.get('record_reads', False)
        if 'slicing' in ob: ex.slicing = ob['slicing']
        if 'libm_axioms' in ob: ex.libm_axioms = ob['libm_axioms']
        if 'libm_mono' in ob: ex.libm_mono = ob['libm_mono']
        if 'ackermann' in ob: ex.ackermann = ob['ackermann']
        if 'div_as_mul' in ob: ex.div_as_mul = ob['div_as_mul']
        if 'fork_select' in ob: ex.fork_select = ob['fork_select']
        ex.libm_inverse = ob.get('libm_inverse', False)
        ex.eager_writes = ob.get('eager_writes', False)
        if ob.get('setup'): ob['setup'](ex)
        cap = ob.get('time_cap', 280 if tier == 'quick' else 2400)
        if tier != 'quick' and 'time_cap_thorough' in ob: cap = ob['time_cap_thorough']
        try:
            ex.run(ob['entry'], [iv(64, c) for c in case], time_cap=cap)
        except Unsupported as e:
            msg = str(e)
            res['verdict'] = 'UNDECIDED' if msg.startswith('TIME-CAP') else 'ENCODING-ERROR'
            res['undecided'].append(('engine', msg[:1500]))
        res['stats'] = ex.stats; res['reached'] = ex.reached; res['called'] = sorted(ex.called); res['axioms'] = sorted(ex.axioms_used)
        for u in ex.undecided: res['undecided'].append((u[0], str(u[1])[:400]))
        if ex.undecided and res['verdict'] == 'PROVED': res['verdict'] = 'UNDECIDED'
        # vacuity guard
        missing = []          # expected labels are checked per obligation over all of its cases (in main)
        ends = sum(v for k, v in ex.reached.items() if k in ('__path_END',) or (k == '__path_THROW' and ob.get('allow_throw')))
        if res['verdict'] == 'PROVED' and (missing or not ends):
            res['verdict'] = 'VACUOUS'; res['undecided'].append(('vacuity', 'not reached: %r; completed paths: %d' % (missing, ends)))
        if not ob.get('allow_throw') and ex.reached.get('__path_THROW') and ob.get('throw_is_violation', False):
            res['undecided'].append(('throw', 'unexpected THROW outcome on %d paths' % ex.reached['__path_THROW']))
        if ob.get('domain_checks'):
            for what, m, st in ex.domain_issues[:20]:
                inp = ex.model_inputs(m, st.inputs) if m is not None else []
                res['violations'].append(dict(kind='domain', what=what, detail='', inputs=inp, native=None))
        for v in ex.violations:
            inp = ex.model_inputs(v.model, v.inputs) if v.model is not None else []
            res['violations'].append(dict(_obj=v, kind=v.kind, what=v.what, detail=v.detail + (' | ' + '; '.join(x for x in v.log if x.startswith('writes')) if any(x.startswith('writes') for x in v.log) else ''), inputs=inp, native=None))
        if ob.get('memory_only'):          # safety/termination obligation run in an abstract arithmetic mode: functional assertions are not meaningful there
            res['violations'] = [v for v in res['violations'] if v['kind'] == 'memory']
            res['undecided'] = [u for u in res['undecided'] if 'solver unknown' not in str(u[1])]
            if not res['undecided'] and res['verdict'] == 'UNDECIDED': res['verdict'] = 'PROVED'
        if ob.get('writes_only'):          # abstract arithmetic over-approximates index computations: only the recorded write-set is claimed
            res['violations'] = [v for v in res['violations'] if v['kind'] == 'assert' and 'writes to pre-existing objects' in v['detail']]
            res['undecided'] = [u for u in res['undecided'] if 'solver unknown' not in str(u[1])]
        # de-duplicate by (kind, what)
        seen = {};
        for v in res['violations']: seen.setdefault((v['kind'], v['what']), v)
        res['violations'] = list(seen.values())
        # replay each violation natively when a native twin exists
        if native:
            for v in res['violations']:
                if not v['inputs'] and v['kind'] != 'assert': continue
                lines = run_native(native, ob['entry'], v['inputs'], case, scratch, 'cex')
                v['native'] = lines[-12:]
                if v['kind'] == 'assert' and 'writes to pre-existing objects' in v['detail']:
                    v['reproduced'] = None        # write-set assertions are only observable in the executor (the native twin records no stores)
                elif v['kind'] == 'assert':
                    v['reproduced'] = ('assert %s 0' % v['what']) in lines
                    if not v['reproduced'] and ex.mode == 'real' and getattr(v.get('_obj'), 'query', None) is not None:
                        # the solver's model may be numerically degenerate in doubles (denormal sigma, 1e300 ...): look for a better conditioned one
                        import z3
                        obj = v['_obj']; reals = [sym for (_, kind, sym) in obj.inputs if kind == 'f64' and z3.is_real(sym)]
                        for lo, hi, integral in ((1e-3, 1e6, False), (1, 1e4, True), (1e-2, 1e3, False)):
                            sol = z3.Solver(); sol.set('timeout', 30000); sol.add(*obj.query)
                            for x in reals:
                                sol.add(x >= -hi, x <= hi, z3.Or(x == 0, x >= lo, x <= -lo))
                                if integral: sol.add(z3.IsInt(x))
                            if sol.check() != z3.sat: continue
                            inp2 = ex.model_inputs(sol.model(), obj.inputs)
                            lines2 = run_native(native, ob['entry'], inp2, case, scratch, 'cex2')
                            if ('assert %s 0' % v['what']) in lines2:
                                v['inputs'] = inp2; v['native'] = lines2[-12:]; v['reproduced'] = True; v['detail'] = (v['detail'] + ' | better conditioned counterexample after the first model did not reproduce natively').strip(' |'); break
                elif v['kind'] == 'memory':
                    v['reproduced'] = None        # native run cannot confirm out-of-bounds accesses without a sanitizer
                else: v['reproduced'] = None
        # translation validation on models of completed paths: engine (concrete IR interpretation) vs native build
        if native and ob.get('validate', 6):
            for inputs, outcome, outs in ex.completed_models[:ob.get('validate', 6)]:
                nat = run_native(native, ob['entry'], inputs, case, scratch, 'val')
                eng = conc_trace(ll, ob, case, inputs)
                if eng and eng[0].startswith('ENGINE-UNSUPPORTED'):
                    res['validation_mismatch'].append(dict(inputs=[(a, b, c if c == c else 'nan') for a, b, c, _ in inputs], native=nat[-6:], engine=eng[-6:], note='concrete interpreter could not run')); continue
                if nat == eng: res['validated'] += 1
                else:
                    res['validation_mismatch'].append(dict(inputs=[(a, b, c if c == c else 'nan') for a, b, c, _ in inputs], native=nat[-8:], engine=eng[-8:]))
        for inputs, outcome, outs in ex.completed_models[:2]:
            res['samples'].append(dict(obligation=oid, case=list(case), path_outcome=outcome, inputs={a: d for a, b, c, d in inputs}))
        for v in res['violations']: v.pop('_obj', None)
        if res['violations']: res['verdict'] = 'VIOLATED'
    except build.BuildError as e:
        res['verdict'] = 'ENCODING-ERROR'; res['undecided'].append(('build', str(e)[:1500]))
    except MemoryError:
        res['verdict'] = 'UNDECIDED'; res['undecided'].append(('memory', 'worker exceeded its memory cap'))
    except Exception as e:
        res['verdict'] = 'ENCODING-ERROR'; res['undecided'].append(('exception', traceback.format_exc()[-1500:]))
    for v in res.get('violations', []): v.pop('_obj', None)
    res['wall'] = round(time.time() - t0, 2)
    return res

def _child(task, conn):
    try: conn.send(run_case(task))
    except Exception as e:
        conn.send(dict(id=task[1], case=list(task[2]), verdict='ENCODING-ERROR', violations=[], undecided=[('exception', traceback.format_exc()[-1500:])], stats={}, reached={}, called=[], axioms=[], validated=0, validation_mismatch=[], wall=0, samples=[]))
    conn.close()

def run_tasks(tasks, jobs, obs, tier):
    """one process per obligation case, at most `jobs` at a time; a case that overruns its hard cap is killed and reported UNDECIDED"""
    obmap = {o['id']: o for o in obs}
    pending = list(tasks); running = []
    while pending or running:
        while pending and len(running) < jobs:
            t = pending.pop(0); pc, cc = multiprocessing.Pipe(False)
            p = multiprocessing.Process(target=_child, args=(t, cc)); p.start(); cc.close()
            cap = obmap[t[1]].get('time_cap', 280 if tier == 'quick' else 2400)
            if tier != 'quick' and 'time_cap_thorough' in obmap[t[1]]: cap = obmap[t[1]]['time_cap_thorough']
            running.append((p, pc, t, time.time(), cap * 1.3 + 60))
        time.sleep(0.05)
        still = []
        for p, pc, t, t0, hard in running:
            if pc.poll():
                try: r = pc.recv()
                except EOFError: r = None
                p.join(5)
                if r is None: r = dict(id=t[1], case=list(t[2]), verdict='UNDECIDED', violations=[], undecided=[('crash', 'worker died (memory cap?)')], stats={}, reached={}, called=[], axioms=[], validated=0, validation_mismatch=[], wall=round(time.time() - t0, 1), samples=[])
                yield r
            elif not p.is_alive():
                p.join(1)
                yield dict(id=t[1], case=list(t[2]), verdict='UNDECIDED', violations=[], undecided=[('crash', 'worker died without a result (memory cap?)')], stats={}, reached={}, called=[], axioms=[], validated=0, validation_mismatch=[], wall=round(time.time() - t0, 1), samples=[])
            elif time.time() - t0 > hard:
                p.kill(); p.join(5)
                yield dict(id=t[1], case=list(t[2]), verdict='UNDECIDED', violations=[], undecided=[('TIME-CAP', 'hard time cap: worker killed after %ds' % int(hard))], stats={}, reached={}, called=[], axioms=[], validated=0, validation_mismatch=[], wall=round(time.time() - t0, 1), samples=[])
            else: still.append((p, pc, t, t0, hard))
        running = still

def load_known():
    out = []
    p = os.path.join(VERIF, 'known_findings.jsonl')
    if os.path.exists(p):
        for l in open(p):
            l = l.strip()
            if l and not l.startswith('#'): out.append(json.loads(l))
    return out

def match_known(known, prop, oid, v):
    vals = {}
    for name, kind, val, _ in v.get('inputs', []): vals.setdefault(name, val)
    for k in known:
        if k.get('status') != 'known' or k['property'] != prop: continue
        if k.get('obligation') and not re.fullmatch(k['obligation'], oid): continue
        if k.get('what') and not re.search(k['what'], v['what']): continue
        if k.get('where'):
            try:
                if not eval(k['where'], {'__builtins__': {}}, dict(vals, abs=abs, case=v.get('case'))): continue
            except Exception: continue
        return k
    return None

def main(argv):
    import argparse
    ap = argparse.ArgumentParser(); ap.add_argument('prop'); ap.add_argument('--tier', default=os.environ.get('VERIF_TIER', 'quick'))
    ap.add_argument('--only', default=None); ap.add_argument('--replay', default=None); ap.add_argument('--jobs', type=int, default=int(os.environ.get('VERIF_JOBS', '16')))
    ap.add_argument('--no-evidence', action='store_true')
    a = ap.parse_args(argv)
    t0 = time.time(); prop = a.prop; tier = a.tier
    seed = int(os.environ.get('VERIF_SEED', '0') or 0)
    spec = load_spec(prop)
    scratch = os.environ.get('VERIF_SCRATCH', '/var/tmp/wbverif.%d' % os.getpid()); os.makedirs(scratch, exist_ok=True)
    if a.replay: return replay(spec, prop, a.replay, scratch)
    obs = [o for o in spec.OBLIGATIONS if (tier == 'thorough' or o.get('tier', 'quick') == 'quick') and (a.only is None or re.search(a.only, o['id']))]
    extra_results = []
    # build (IR + native twins), one per distinct TU list
    builds = {}; build_errors = {}
    for o in obs:
        key = (tuple(o['tus']), tuple(o.get('cflags', ())))
        if key in builds or key in build_errors: continue
        try:
            ll = build.build_ir(o['tus'], o.get('cflags', ()))
            native = None
            if o.get('native', True):
                txt = open(ll).read()
                wraps = sorted(set(re.findall(r'^define [^@]*@"?__wrap_([\w$.]+)"?\(', txt, re.M)))
                try: native = build.build_native(o['tus'], wraps)
                except build.BuildError as e:
                    native = None; extra_results.append(('native-build', str(e)[-600:]))
            builds[key] = (ll, native)
        except build.BuildError as e:
            build_errors[key] = str(e)
    tasks = []; results = []
    for o in obs:
        key = (tuple(o['tus']), tuple(o.get('cflags', ())))
        if key in build_errors:
            results.append(dict(id=o['id'], case=[], verdict='ENCODING-ERROR', violations=[], undecided=[('build', build_errors[key][-1500:])], stats={}, reached={}, called=[], axioms=[], validated=0, validation_mismatch=[], wall=0, samples=[]))
            print('  [%s] BUILD ERROR: %s' % (o['id'], build_errors[key][-1500:]), flush=True)
            continue
        ll, native = builds[key]
        cases = o.get('cases_thorough', o.get('cases', [()])) if tier == 'thorough' else o.get('cases', [()])
        for c in cases: tasks.append((prop, o['id'], tuple(c), ll, native, scratch, tier))
    if tasks:
        for r in run_tasks(tasks, a.jobs, obs, tier):
            results.append(r)
            print('  [%s%s] %s  paths=%s queries=%s wall=%ss%s' % (r['id'], r['case'] or '', r['verdict'], r['stats'].get('paths'), r['stats'].get('queries'), r['wall'],
                  ('  ' + '; '.join('%s: %s' % (u[0], (str(u[1]) if r['verdict']=='ENCODING-ERROR' else str(u[1]).split('\n')[0][:160])) for u in r['undecided'][:2])) if r['undecided'] else ''), flush=True)
    # optional non-llsym engines (astx, cbmc cross-checks) contributed by the property module
    if hasattr(spec, 'extra_checks'):
        for r in spec.extra_checks(tier, scratch):
            results.append(r)
            print('  [%s] %s  wall=%ss %s' % (r['id'], r['verdict'], r['wall'], '; '.join(str(u[1])[:160] for u in r['undecided'][:2])), flush=True)
    results.sort(key=lambda r: (r['id'], r['case']))
    # vacuity guard per obligation: every expected assertion / reach marker must have been hit on a feasible path in some case
    for o in obs:
        rs = [r for r in results if r['id'] == o['id']]
        if not rs or any(r['verdict'] == 'ENCODING-ERROR' for r in rs): continue
        missing = [lab for lab in o.get('expect', []) if not any(r['reached'].get(lab) for r in rs)]
        if missing:
            for r in rs:
                if r['verdict'] == 'PROVED': r['verdict'] = 'VACUOUS'; r['undecided'].append(('vacuity', 'never reached in any case: %r' % missing))
            print('  [%s] VACUOUS: never reached: %r' % (o['id'], missing))
    known = load_known(); exit_code = 0; nviol = 0; known_hit = []
    os.makedirs(os.path.join(VERIF, 'replay', prop), exist_ok=True)
    obmap = {o['id']: o for o in spec.OBLIGATIONS}
    for r in results:
        for i, v in enumerate(r['violations']):
            v['case'] = r['case']
            if v.get('reproduced') is False:
                r['undecided'].append(('SPURIOUS', '%s: model does not reproduce on the native build' % v['what'])); v['spurious'] = True
                if r['verdict'] == 'VIOLATED' and all(x.get('spurious') for x in r['violations']): r['verdict'] = 'UNDECIDED'
                continue
            k = match_known(known, prop, r['id'], v)
            if k is not None:
                known_hit.append(k['desc']); v['known'] = k['desc']
                continue
            nviol += 1; exit_code = 1
            path = os.path.join(VERIF, 'replay', prop, '%s_%s_%d.json' % (r['id'], '_'.join(map(str, r['case'])) or 'x', i))
            ob = obmap.get(r['id'], {})
            json.dump(dict(property=prop, obligation=r['id'], case=r['case'], kind=v['kind'], what=v['what'], detail=v['detail'], inputs=[(x[0], x[1], x[2] if x[2] == x[2] else 'nan', x[3]) for x in v['inputs']],
                           native_replay=v.get('native'), reproduced_natively=v.get('reproduced'), entry=ob.get('entry'), tus=ob.get('tus'), mode=ob.get('mode')), open(path, 'w'), indent=1)
            print('VIOLATION property=%s replay=%s' % (prop, path))
            print('   obligation %s case %s: %s %s %s' % (r['id'], r['case'], v['kind'], v['what'], v['detail'][:200]))
            print('   inputs: ' + ', '.join('%s=%s' % (x[0], x[3]) for x in v['inputs'][:24]))
    for d in sorted(set(known_hit)): print('KNOWN-FINDING: property=%s %s' % (prop, d))
    enc = [r for r in results if r['verdict'] in ('ENCODING-ERROR',)]
    for r in results:
        if r['validation_mismatch']:
            print('  TRANSLATION-VALIDATION mismatch in %s%s: %s' % (r['id'], r['case'], json.dumps(dict(r['validation_mismatch'][0], inputs=len(r['validation_mismatch'][0]['inputs'])))[:1500]))
    if not a.no_evidence: write_evidence(prop, tier, seed, spec, obs, results, nviol, known_hit, time.time() - t0, extra_results)
    proved = sum(1 for r in results if r['verdict'] == 'PROVED'); und = sum(1 for r in results if r['verdict'] in ('UNDECIDED', 'VACUOUS'));
    print('%s %s: %d obligation-cases, %d proved, %d undecided, %d encoding-error, %d violated (%d unlisted violations), wall %.1fs' % (
        prop, tier, len(results), proved, und, len(enc), sum(1 for r in results if r['verdict'] == 'VIOLATED'), nviol, time.time() - t0))
    import shutil; shutil.rmtree(scratch, ignore_errors=True)
    if exit_code == 0 and enc and not os.environ.get('VERIF_TOLERATE_ENCODING_ERRORS'):
        print('ENCODING-ERROR in %d obligation(s) (no verdict, not a violation)' % len(enc)); return 2
    return exit_code

def write_evidence(prop, tier, seed, spec, obs, results, nviol, known_hit, wall, extra):
    st = lambda k: sum(int(r['stats'].get(k, 0) or 0) for r in results)
    nontrivial = sum(1 for r in results if r['verdict'] in ('PROVED', 'VIOLATED', 'UNDECIDED') and (r['reached'].get('__path_END', 0) + r['reached'].get('__path_THROW', 0)) > 0 and r['stats'].get('asserts', 0) + len(r.get('violations', [])) > 0)
    samples = []
    for r in results:
        for smp in r.get('samples', [])[:1]: samples.append(smp)
    samples = samples[:12] or [dict(note='no completed path model recorded')]
    called = sorted(set(c for r in results for c in r['called'] if not c.startswith(('sym_', 'llvm.'))))
    tus = sorted(set(t for o in obs for t in o['tus']))
    cov = dict(
        evaluations=max(1, st('queries') + st('asserts')), distinct_nontrivial=nontrivial,
        rule='one case = one obligation instance (harness function x concrete split arguments) executed symbolically over the LLVM IR of /repo; non-trivial = at least one feasible path ran to completion and at least one assertion (or memory-safety event) was decided by the solver on it',
        samples=samples,
        states=max(1, st('paths')), transitions=max(1, st('steps')), traces_validated_against_impl=sum(r['validated'] for r in results),
        obligations=len(results), discharged=sum(1 for r in results if r['verdict'] == 'PROVED'),
        undecided=[dict(id=r['id'], case=r['case'], verdict=r['verdict'], why=[str(u[1]).split('\n')[0][:300] for u in r['undecided'][:3]]) for r in results if r['verdict'] not in ('PROVED',)][:40],
        per_obligation=[dict(id=r['id'], case=r['case'], verdict=r['verdict'], paths=r['stats'].get('paths'), queries=r['stats'].get('queries'), asserts=r['stats'].get('asserts'), asserts_proved=r['stats'].get('asserts_proved'),
                             solver_s=round(r['stats'].get('solver_s', 0) or 0, 2), wall_s=r['wall'], validated=r['validated'], reached={k: v for k, v in r['reached'].items()}) for r in results],
        obligation_specs=[dict(id=o['id'], entry=o.get('entry'), mode=o.get('mode'), bounds=o.get('bounds'), assumes=o.get('assumes'), stubs=o.get('stubs'), outside=o.get('outside'), tier=o.get('tier', 'quick')) for o in obs],
        functions_encoded=called[:400], source_units=build.source_hashes([t for t in tus if not t.endswith('.cc')]) if tus else {},
        axioms=sorted(set(x for r in results for x in r['axioms'])),
        solver='z3 %s (python API), fresh solver per query, per-query timeout; see DESIGN.md 3.2' % __import__('z3').get_version_string(),
        solver_time_s=round(sum(r['stats'].get('solver_s', 0) or 0 for r in results), 2), solver_queries=st('queries'),
        known_findings_hit=sorted(set(known_hit)), translation_validation_mismatches=sum(len(r['validation_mismatch']) for r in results),
        notes=[str(x)[:300] for x in extra][:10],
        exhaustive=False)
    ev = dict(property_id=prop, tier=tier, seed=seed, level='model_checking', coverage=cov,
              assumptions=sorted(set(x for o in obs for x in (o.get('assumes') or []))) + ['clang-14 -O1 IR of the sources stands for the g++ -O2 binary (checked per run by native-vs-interpreter trace comparison)', 'verdicts hold within the bounds listed per obligation only'],
              wall_s=round(wall, 2), violations=nviol)
    os.makedirs(os.path.join(VERIF, 'evidence'), exist_ok=True)
    json.dump(ev, open(os.path.join(VERIF, 'evidence', prop + '.json'), 'w'), indent=1, default=str)

def replay(spec, prop, path, scratch):
    d = json.load(open(path)); ob = [o for o in spec.OBLIGATIONS if o['id'] == d['obligation']][0]
    native = build.build_native(ob['tus'], sorted(set(re.findall(r'^define [^@]*@"?__wrap_([\w$.]+)"?\(', open(build.build_ir(ob['tus'], ob.get('cflags', ()))).read(), re.M))))
    inputs = [(x[0], x[1], float('nan') if x[2] == 'nan' else x[2], x[3]) for x in d['inputs']]
    lines = run_native(native, ob['entry'], inputs, d['case'], scratch, 'replay')
    print('\n'.join(lines))
    bad = [l for l in lines if l.startswith('assert') and l.endswith(' 0')]
    print('REPLAY: %s' % ('violation reproduced on the native build: ' + bad[0] if bad else 'no assertion failed natively'))
    return 1 if bad else 0

if __name__ == '__main__':
    multiprocessing.set_start_method('fork')
    sys.exit(main(sys.argv[1:]))
