"""Symbolic state: frames, objects with concrete addresses, typed cells, zero ranges, initialisation tracking."""
from vals import *
from llir import INT
INT8 = INT(8)
INT64_ = INT(64)

class Obj:
    __slots__ = ('size', 'cells', 'zero', 'freed', 'name', 'pre', 'allow', 'shared')
    def __init__(s, size, name=''):
        s.size, s.cells, s.zero, s.freed, s.name, s.pre, s.allow, s.shared = size, {}, [], False, name, False, False, False
    def clone(s):
        o = Obj(s.size, s.name); o.cells = dict(s.cells); o.zero = list(s.zero); o.freed = s.freed; o.pre = s.pre; o.allow = s.allow
        return o

class Frame:
    __slots__ = ('fn', 'regs', 'block', 'prev', 'ip', 'ret_to', 'allocas', 'code')
    def __init__(s, fn): s.fn, s.regs, s.block, s.prev, s.ip, s.ret_to, s.allocas, s.code = fn, {}, None, None, 0, None, [], None
    def clone(s):
        f = Frame(s.fn); f.regs = dict(s.regs); f.block, f.prev, f.ip, f.ret_to, f.allocas, f.code = s.block, s.prev, s.ip, s.ret_to, list(s.allocas), s.code
        return f

class State:
    def __init__(s):
        s.frames = []; s.mem = {}; s.next_obj = 1; s.pc = []; s.globals = {}; s.log = []; s.steps = 0; s.subst = {}
        s.inputs = []      # [(name, kind, z3 symbol or concrete)]  in creation order
        s.outs = []        # [(name, value)] from sym_out
        s.model = None     # a z3 model known to satisfy pc (or None)
        s.reads = None     # optional read-set recording: set of (objname, off)
        s.writes = []      # writes to pre-existing, not allowed objects
        s.apps = []        # libm applications on this path: (fname, args tuple, result)
        s.cow = set()      # ids of objects owned (copied) by this state
        s.events = []      # (kind, payload) recorded by harness-visible primitives
        s.nin = 0; s.frozen = False
    def clone(s):
        t = State(); t.frames = [f.clone() for f in s.frames]
        t.mem = dict(s.mem); s.cow = set(); t.cow = set()       # copy-on-write: both lose ownership
        t.next_obj = s.next_obj; t.pc = list(s.pc); t.globals = dict(s.globals); t.log = list(s.log); t.steps = s.steps; t.subst = dict(s.subst)
        t.inputs = list(s.inputs); t.outs = list(s.outs); t.model = s.model; t.reads = None if s.reads is None else set(s.reads)
        t.writes = list(s.writes); t.apps = list(s.apps); t.events = list(s.events); t.nin = s.nin; t.frozen = s.frozen
        return t
    def alloc(s, size, name=''):
        i = s.next_obj; s.next_obj += 1; s.mem[i] = Obj(size, name); s.cow.add(i); return i
    def wobj(s, i):
        """object for writing (copy on write)"""
        if i in s.cow: return s.mem[i]
        o = s.mem[i].clone(); s.mem[i] = o; s.cow.add(i); return o

class Memory:
    """load/store on a State; needs the module for layout"""
    def __init__(s, mod, ex): s.mod = mod; s.ex = ex

    def chk(s, st, p, n, what):
        if p[0] != 'p': raise Unsupported('%s through %r' % (what, p[:1]))
        if p[1] is None: raise MemViolation('%s through null pointer (+%d)' % (what, p[2]))
        o = st.mem[p[1]]
        if o.freed: raise MemViolation('%s after free/return of %s' % (what, o.name))
        if p[2] < 0 or p[2] + n > o.size: raise MemViolation('out-of-bounds %s %s[%d..%d) size %d' % (what, o.name, p[2], p[2] + n, o.size))
        return o

    def overlapping(s, o, off, n):
        cells = o.cells
        if n + 16 < len(cells):          # scalar cells are at most 16 bytes wide: probe instead of scanning
            return [k for k in range(off - 15, off + n) if k in cells and k + cells[k][0] > off]
        return [k for k in cells if k < off + n and k + cells[k][0] > off]

    def load(s, st, ty, p):
        n = s.mod.size(ty)
        if ty.k == 'struct':
            s.chk(st, p, n, 'load')
            return ('agg', [s.load(st, s.mod.resolve(f), ('p', p[1], p[2] + s.mod.field_offset(ty, i))) for i, f in enumerate(ty.a)])
        if ty.k in ('arr', 'vec'):
            s.chk(st, p, n, 'load'); es = s.mod.size(ty.b); et = s.mod.resolve(ty.b)
            return ('agg', [s.load(st, et, ('p', p[1], p[2] + i*es)) for i in range(ty.a)])
        o = s.chk(st, p, n, 'load'); off = p[2]
        if st.reads is not None and o.pre: st.reads.add((o.name, off))
        c = o.cells.get(off)
        if c is not None and c[0] == n: return s.coerce(c[1], ty)
        ov = s.overlapping(o, off, n)
        if not ov:
            for a, b in o.zero:
                if a <= off and off + n <= b: return s.zero_of(ty)
            st.log.append('uninit read %s+%d' % (o.name, off))
            v = s.ex.fresh_val(st, ty, 'uninit', hidden=True)
            st.events.append(('uninit', '%s+%d' % (o.name, off)))
            return v
        # narrow integer load out of a wider integer cell
        for k in ov:
            cn, cv = o.cells[k]
            if k <= off and off + n <= k + cn and cv[0] == 'i' and ty.k == 'int':
                sh = (off - k)*8
                if isinstance(cv[2], int): return iv(ty.a, cv[2] >> sh)
                return iv(ty.a, z3.Extract(sh + ty.a - 1, sh, cv[2]))
        # wide integer load assembled from byte/short cells (all must be integers); a double is assembled through its bit pattern
        if ty.k == 'double':
            r = s.load(st, INT64_, p)
            return s.coerce(r, ty)
        if ty.k == 'ptr':
            # a pointer-typed load of bytes that hold plain integer data (unions copied word by word, e.g. rapidjson's short strings):
            # the bit pattern travels in a pointer-typed register ('ip') and can only be stored again or viewed as an integer
            r = s.load(st, INT64_, p)
            if r[0] == 'i': return ('ip', r)
            return s.coerce(r, ty)
        if ty.k == 'int':
            parts = []; pos = off
            while pos < off + n:
                c = o.cells.get(pos)
                if c is None:
                    if any(a <= pos < b for a, b in o.zero): parts.append(iv(8, 0)); pos += 1; continue
                    if not s.overlapping(o, pos, 1):      # uninitialised padding byte copied along with initialised ones
                        parts.append(s.ex.fresh_val(st, INT8, 'padbyte', hidden=True) if s.ex.mode != 'conc' else iv(8, 0)); pos += 1; continue
                    break
                if c[1][0] != 'i' or pos + c[0] > off + n: break
                parts.append(c[1]); pos += c[0]
            if pos == off + n:
                if all(isinstance(x[2], int) for x in parts):
                    r = 0; sh = 0
                    for x in parts: r |= x[2] << sh; sh += x[1]
                    return iv(ty.a, r)
                r = None
                for x in parts: r = bvz(x) if r is None else z3.Concat(bvz(x), r)
                return iv(ty.a, r)
        raise Unsupported('partial load %s+%d n=%d cells=%r' % (o.name, off, n, sorted(ov)[:8]))

    def coerce(s, v, ty):
        k = ty.k
        if k == 'int':
            if v[0] == 'i':
                if v[1] == ty.a: return v
                raise Unsupported('int width mismatch %d vs %d' % (v[1], ty.a))
            if v[0] in ('p', 'fn'): return ('pi', v)
            if v[0] == 'f':
                if isinstance(v[1], float): return iv(64, d2bits(v[1]))
                return ('fi', v)
            if v[0] in ('pi', 'fi', 'undef'): return v
            if v[0] == 'ip' and v[1][1] == ty.a: return v[1]
        elif k == 'ptr':
            if v[0] in ('p', 'fn', 'undef', 'ip'): return v
            if v[0] == 'pi': return v[1]
            if v[0] == 'i' and v[2] == 0: return NULL
            if v[0] == 'i' and v[1] == 64: return ('ip', v)
        elif k == 'double':
            if v[0] == 'f': return v
            if v[0] == 'fi': return v[1]
            if v[0] == 'i' and isinstance(v[2], int): return ('f', bits2d(v[2]))
            if v[0] == 'i' and s.ex.mode != 'real': return ('f', z3.fpBVToFP(v[2], F64))
            if v[0] == 'undef': return v
        elif k in ('float', 'x86_fp80') and v[0] in ('f', 'undef'): return v
        raise Unsupported('coerce %r to %r' % (v[0], ty))

    def zero_of(s, ty):
        if ty.k == 'int': return iv(ty.a, 0)
        if ty.k in ('double', 'float', 'x86_fp80'): return ('f', 0.0)
        if ty.k == 'ptr': return NULL
        raise Unsupported('zero of %r' % ty)

    def note_write(s, st, o, off):
        if o.pre and not o.allow:
            st.writes.append('%s+%d' % (o.name, off))
            ex = s.ex
            if getattr(ex, 'eager_writes', False) and ex.mode != 'conc' and o.name not in ex.eager_seen:
                # report the store where it happens: a path that later runs into the time cap still yields the finding
                ex.eager_seen.add(o.name)
                from symex import Violation
                m = ex.full_model(st)
                if m is not None: ex.violations.append(Violation('assert', 'the query stores only to fresh memory (recorded at the store)', m, st, 'writes to pre-existing objects: %s+%d' % (o.name, off)))

    def store(s, st, ty, v, p):
        n = s.mod.size(ty)
        s.chk(st, p, n, 'store')
        if v[0] == 'agg':
            if ty.k == 'struct':
                for i, f in enumerate(ty.a): s.store(st, s.mod.resolve(f), v[1][i], ('p', p[1], p[2] + s.mod.field_offset(ty, i)))
            else:
                es = s.mod.size(ty.b); et = s.mod.resolve(ty.b)
                for i in range(ty.a): s.store(st, et, v[1][i], ('p', p[1], p[2] + i*es))
            return
        o = st.wobj(p[1]); off = p[2]
        s.note_write(st, o, off)
        if v[0] == 'fi': v = v[1]
        elif v[0] == 'pi': v = v[1]
        elif v[0] == 'ip': v = v[1]
        for k in s.overlapping(o, off, n):
            cn, cv = o.cells[k]
            del o.cells[k]
            # keep the non-overwritten bytes of a concrete integer cell
            if cv[0] == 'i' and isinstance(cv[2], int) and (k < off or k + cn > off + n):
                for j in range(cn):
                    if not (off <= k + j < off + n): o.cells[k + j] = (1, iv(8, cv[2] >> (8*j)))
            elif k < off or k + cn > off + n:
                st.log.append('partial overwrite of %s+%d' % (o.name, k))
        if o.zero: s.unzero(o, off, n)
        o.cells[off] = (n, v)

    def unzero(s, o, off, n):
        nz = []
        for a, b in o.zero:
            if b <= off or a >= off + n: nz.append((a, b)); continue
            if a < off: nz.append((a, off))
            if b > off + n: nz.append((off + n, b))
        o.zero = nz

    def memcpy(s, st, d, sp, n):
        if n == 0: return
        so = s.chk(st, sp, n, 'memcpy-read'); s.chk(st, d, n, 'memcpy-write')
        do = st.wobj(d[1]); s.note_write(st, do, d[2])
        if so is not do or True:
            so = st.mem[sp[1]]
        lo, hi = sp[2], sp[2] + n
        cells = []
        for k, c in so.cells.items():
            if k >= lo and k + c[0] <= hi: cells.append((k, c))
            elif k < hi and k + c[0] > lo:
                cn, cv = c
                if cv[0] == 'i' and isinstance(cv[2], int):
                    for j in range(cn):
                        if lo <= k + j < hi: cells.append((k + j, (1, iv(8, cv[2] >> (8*j)))))
                else: raise Unsupported('memcpy splits a symbolic cell of %s+%d' % (so.name, k))
        zr = [(max(a, lo), min(b, hi)) for a, b in so.zero if a < hi and b > lo]
        if st.reads is not None and so.pre:
            for k, c in cells: st.reads.add((so.name, k))
        for k in s.overlapping(do, d[2], n):
            cn, cv = do.cells[k]
            del do.cells[k]
            if cv[0] == 'i' and isinstance(cv[2], int) and (k < d[2] or k + cn > d[2] + n):
                for j in range(cn):
                    if not (d[2] <= k + j < d[2] + n): do.cells[k + j] = (1, iv(8, cv[2] >> (8*j)))
        s.unzero(do, d[2], n)
        do.zero = do.zero + [(a - lo + d[2], b - lo + d[2]) for a, b in zr]
        for k, c in cells: do.cells[k - lo + d[2]] = c

    def memset(s, st, d, byte, n):
        if n == 0: return
        s.chk(st, d, n, 'memset'); o = st.wobj(d[1]); off = d[2]; s.note_write(st, o, off)
        for k in s.overlapping(o, off, n):
            cn, cv = o.cells[k]; del o.cells[k]
            if cv[0] == 'i' and isinstance(cv[2], int) and (k < off or k + cn > off + n):
                for j in range(cn):
                    if not (off <= k + j < off + n): o.cells[k + j] = (1, iv(8, cv[2] >> (8*j)))
        s.unzero(o, off, n)
        if byte == 0: o.zero.append((off, off + n))
        else:
            if n > 4096: raise Unsupported('large non-zero memset')
            for j in range(n): o.cells[off + j] = (1, iv(8, byte))

    def cstr(s, st, p, limit=256):
        out = ''; off = p[2]
        while len(out) < limit:
            b = s.load(st, INT8, ('p', p[1], off))
            if not isinstance(b[2], int): raise Unsupported('cstr: symbolic byte')
            c = b[2] & 0xff
            if c == 0: return out
            out += chr(c); off += 1
        return out
