"""Forking symbolic executor over LLVM-14 textual IR (concrete pointers, z3).

Modes for `double`:  fp   = SMT Float64, bit precise
                     fpu  = as fp, but fmul/fdiv/frem of two non-constant operands are uninterpreted functions
                     fpa  = as fp for comparisons/selection/abs/min/max, every fadd/fsub/fmul/fdiv result uninterpreted
                     real = exact real arithmetic (rounding, NaN, infinities outside the claim)
                     conc = everything concrete (IR interpreter used for translation validation)
"""
import sys, time, math, ctypes
from llir import *
from vals import *
from mem import *
from decode import Dec
import z3

_libm = ctypes.CDLL('libm.so.6')
for _n in ('exp', 'erfc', 'erf', 'sin', 'cos', 'tan', 'sqrt', 'acos', 'asin', 'atan', 'log', 'floor', 'ceil', 'round', 'fabs', 'cbrt', 'sinh', 'cosh', 'tanh', 'log10', 'exp2', 'trunc'):
    getattr(_libm, _n).restype = ctypes.c_double; getattr(_libm, _n).argtypes = [ctypes.c_double]
for _n in ('atan2', 'pow', 'fmod', 'fmin', 'fmax', 'hypot', 'copysign', 'nextafter'):
    getattr(_libm, _n).restype = ctypes.c_double; getattr(_libm, _n).argtypes = [ctypes.c_double, ctypes.c_double]
LIBM1 = {'exp', 'erfc', 'erf', 'sin', 'cos', 'tan', 'sqrt', 'acos', 'asin', 'atan', 'log', 'floor', 'ceil', 'round', 'cbrt', 'sinh', 'cosh', 'tanh', 'log10', 'exp2', 'trunc'}
LIBM2 = {'atan2', 'pow', 'fmod', 'hypot', 'nextafter'}

THROWERS = ('__cxa_throw', '__cxa_rethrow', '_ZSt20__throw_length_errorPKc', '_ZSt17__throw_bad_allocv', '_ZSt28__throw_bad_array_new_lengthv',
            '_ZSt24__throw_out_of_range_fmtPKcz', '_ZSt19__throw_logic_errorPKc', '_ZSt20__throw_out_of_rangePKc', '_ZSt24__throw_invalid_argumentPKc',
            '_ZSt25__throw_bad_function_callv', '_ZSt20__throw_system_errori', '_ZSt9terminatev', 'abort', '__cxa_pure_virtual', '_ZSt21__throw_bad_exceptionv',
            '_ZSt16__throw_bad_castv', '_ZSt21__throw_runtime_errorPKc', '_ZSt19__throw_range_errorPKc', '_ZSt22__throw_overflow_errorPKc',
            '_ZSt23__throw_underflow_errorPKc', '_ZSt19__throw_ios_failurePKc', '_ZSt18__throw_bad_typeidv', '__cxa_bad_cast', '__cxa_bad_typeid',
            '__cxa_throw_bad_array_new_length', '__assert_fail')
# building an error message: the code that follows can only end in a throw (WBAssertThrow); cut there
THROW_PREFIX = ('_ZNSt7__cxx1118basic_stringstreamIcSt11char_traitsIcESaIcEEC1Ev', '_ZNSt7__cxx1119basic_ostringstreamIcSt11char_traitsIcESaIcEEC1Ev',
                '__cxa_allocate_exception')

class Violation:
    def __init__(s, kind, what, model, st, detail=''):
        s.kind, s.what, s.model, s.detail = kind, what, model, detail
        s.inputs = list(st.inputs); s.log = list(st.log[-6:]); s.pc_len = len(st.pc); s.values = None
    def __repr__(s): return '<Violation %s %s %s>' % (s.kind, s.what, s.detail[:200])

class Exec:
    def __init__(s, mod, mode='fp', overrides=None, harness_prefix='h_', max_steps=400000, qtimeout_ms=60000, conc_inputs=None):
        s.mod = mod; s.mode = mode; s.dec = Dec(mod); s.mem = Memory(mod, s)
        s.counter = 0; s.ufs = {}
        s.stats = dict(paths=0, queries=0, forks=0, solver_s=0.0, steps=0, throws=0, unknown=0, asserts=0, asserts_proved=0, model_hits=0, infeasible=0, bound_exceeded=0)
        s.violations = []; s.undecided = []; s.reached = {}; s.axioms_used = set(); s.overrides = overrides or {}
        s.max_steps = max_steps; s.qtimeout = qtimeout_ms; s.harness_prefix = harness_prefix
        s.conc_inputs = conc_inputs; s.trace = []     # conc mode: list of inputs consumed in order; trace of outs/asserts
        s.called = set(); s.path_samples = []; s.completed_models = []; s.keep_models = 0
        s.domain_checks = False; s.domain_fdiv = True; s.domain_issues = []; s.record_reads = False; s.eager_writes = False; s.eager_seen = set()
        s.srt = z3.RealSort() if mode == 'real' else F64
        s.deadline = None; s.fork_select = True; s.libm_axioms = True; s.libm_mono = True; s.div_as_mul = True; s.ackermann = False; s.ack_vars = {}; s.ack_keep = []; s.vcache = {}; s.slicing = (mode == 'real')
    # ------------------------------------------------------------ solver
    def vars_of(s, e):
        """uninterpreted constants and function symbols occurring in e (cached per AST id)"""
        c = s.vcache.get(e.get_id())
        if c is not None: return c[1]
        out = set(); seen = set(); stack = [e]
        while stack:
            x = stack.pop(); i = x.get_id()
            if i in seen: continue
            seen.add(i)
            sub = s.vcache.get(i)
            if sub is not None: out |= sub[1]; continue
            if z3.is_app(x):
                d = x.decl()
                if d.kind() == z3.Z3_OP_UNINTERPRETED: out.add(d.name())
                stack.extend(x.children())
        out = frozenset(out); s.vcache[e.get_id()] = (e, out)
        return out
    def slice_pc(s, st, extra):
        """constraints of pc transitively sharing symbols with extra (KLEE-style independence); sound because the
        remaining constraints are satisfiable on their own (paths are only continued when feasible)"""
        need = set()
        for c in extra: need |= s.vars_of(c)
        items = [(c, s.vars_of(c)) for c in st.pc]
        chosen = []; rest = items; changed = True
        while changed:
            changed = False; nrest = []
            for c, v in rest:
                if v & need: chosen.append(c); need |= v; changed = True
                elif not v: chosen.append(c)
                else: nrest.append((c, v))
            rest = nrest
        return chosen, frozenset(need), len(rest)
    def check(s, st, extra=(), want_model=True, full=False):
        """-> (result, (model, covered symbols | None))"""
        if s.deadline is not None and time.time() > s.deadline: raise Unsupported('TIME-CAP')
        sol = z3.Solver(); sol.set('timeout', s.qtimeout)
        cov = None
        if extra and not full and s.slicing and len(st.pc) > 3:
            chosen, need, dropped = s.slice_pc(st, extra)
            sol.add(*chosen)
            if dropped: cov = need
        else: sol.add(*st.pc)
        sol.add(*extra)
        if s.mode == 'real' and s.ackermann:
            cs = s.ackermannize(list(sol.assertions()))
            if cs is not None:
                sol = z3.Solver(); sol.set('timeout', s.qtimeout); sol.add(*cs); cov = frozenset()     # model lacks the function interpretations: never used as a cache
        t = time.time(); r = sol.check(); s.stats['solver_s'] += time.time() - t; s.stats['queries'] += 1
        if r == z3.unknown: s.stats['unknown'] += 1
        return r, ((sol.model(), cov) if (r == z3.sat and want_model) else None)
    def ackermannize(s, cs):
        """replace every application of an uninterpreted function by a fresh real constant and add the congruence instances
        (args equal -> results equal) for each pair of applications of the same function: equisatisfiable, and pure QF_NRA for nlsat"""
        apps = {}; seen = set(); stack = list(cs)
        while stack:
            x = stack.pop(); i = x.get_id()
            if i in seen: continue
            seen.add(i)
            if z3.is_app(x):
                if x.num_args() > 0 and x.decl().kind() == z3.Z3_OP_UNINTERPRETED and x.decl().name().startswith('libm_'): apps[i] = x      # libm only: harness UFs over bit-vectors stay UFs
                stack.extend(x.children())
        if not apps or len(apps) > 24: return None            # many applications (series sums): the pairwise congruence instances would swamp the query
        order = sorted(apps.values(), key=lambda a: len(str(a)) if False else a.get_id())
        pairs = []
        for a in order:
            v = s.ack_vars.get(a.get_id())
            if v is None:
                srt = a.sort()
                v = z3.Const('ack!%d' % a.get_id(), srt); s.ack_vars[a.get_id()] = v; s.ack_keep.append(a)
            pairs.append((a, v))
        sub = lambda e: z3.substitute(e, *pairs)
        out = [sub(c) for c in cs]
        byf = {}
        for a, v in pairs: byf.setdefault(a.decl().name(), []).append((a, v))
        for f, lst in byf.items():
            for i in range(len(lst)):
                for j in range(i + 1, len(lst)):
                    a, va = lst[i]; b, vb = lst[j]
                    eqs = [sub(a.arg(k)) == sub(b.arg(k)) for k in range(a.num_args())]
                    out.append(z3.Implies(z3.And(*eqs) if len(eqs) > 1 else eqs[0], va == vb))
        return out
    def full_model(s, st, extra=()):
        """a model of the whole path condition (for counterexamples / replay inputs); falls back to None"""
        r, m = s.check(st, extra, full=True)
        return m[0] if r == z3.sat else None
    def fresh(s, name): s.counter += 1; return '%s!%d' % (name, s.counter)
    def model_says(s, st, c):
        if st.model is None: return False
        m, cov = st.model
        if cov is not None and not (s.vars_of(c) <= cov): return False
        try: return z3.is_true(m.eval(c, model_completion=True))
        except z3.Z3Exception: return False
    def add_pc(s, st, c):
        st.pc.append(c)
        if st.model is not None and not s.model_says(st, c): st.model = None
    def feasible(s, st, c):
        """is pc and c satisfiable?  returns (sat?, model)   unknown counts as feasible"""
        if s.model_says(st, c):
            s.stats['model_hits'] += 1; return True, st.model
        r, m = s.check(st, [c])
        if r == z3.unsat: return False, None
        return True, m
    # ------------------------------------------------------------ values
    def fz(s, x):
        v = x[1]
        if isinstance(v, float):
            if s.mode == 'real':
                if v != v or v in (float('inf'), float('-inf')): raise Unsupported('non-finite constant in real mode')
                n, d = v.as_integer_ratio(); return z3.RealVal('%d/%d' % (n, d))
            return z3.FPVal(v, F64)
        return v
    def fresh_val(s, st, ty, name, hidden=False):
        k = ty.k
        if s.mode == 'conc':
            if hidden:
                if k == 'int': return iv(ty.a, 0xAA)
                if k == 'double': return ('f', float('nan'))
                if k == 'ptr': return UNDEF
            return s.next_conc(st, name, ty)
        if k == 'int': v = iv(ty.a, z3.BitVec(s.fresh(name), ty.a)); sym = v[2]
        elif k in ('double', 'x86_fp80', 'float'):
            sym = z3.Real(s.fresh(name)) if s.mode == 'real' else z3.FP(s.fresh(name), F64); v = ('f', sym)
        elif k == 'ptr': return UNDEF
        else: raise Unsupported('fresh of %r' % ty)
        if not hidden: st.inputs.append((name, 'f64' if k == 'double' else 'i%d' % ty.a, sym))
        return v
    def next_conc(s, st, name, ty):
        if st.nin >= len(s.conc_inputs): raise Unsupported('concrete run: input list exhausted at ' + name)
        nm, kind, val = s.conc_inputs[st.nin]; st.nin += 1
        if nm != name: raise Unsupported('concrete run: input order mismatch: wanted %s got %s' % (name, nm))
        if ty.k == 'double': return ('f', val if isinstance(val, float) else bits2d(val))
        return iv(ty.a, int(val))
    def ev(s, st, fr, d):
        k = d[0]
        if k == 'r': return fr.regs[d[1]]
        if k == 'c': return d[1]
        if k == 'g': return s.global_addr(st, d[1])
        if k == 'cagg': return ('agg', [s.ev(st, fr, x) for x in d[1]])
        if k == 'cgep':
            base = s.ev(st, fr, d[2]); const, steps = s.dec.gep_steps(d[1], d[3])
            if steps: raise Unsupported('symbolic constant gep')
            if base[0] != 'p': raise Unsupported('constant gep on %r' % (base[:1],))
            return ('p', base[1], base[2] + const)
        if k == 'ccast': return s.cast(d[1], s.ev(st, fr, d[2]), d[3], d[4])
        raise Unsupported('operand ' + k)
    def global_addr(s, st, nm):
        a = s.mod.aliases.get(nm)
        if a is not None:
            p = P(a, s.mod); ty = p.ty(); return s.ev(st, None, s.dec.val(p, ty))
        if nm in s.mod.funcs or nm in s.mod.decls: return ('fn', nm)
        oid = st.globals.get(nm)
        if oid is not None: return ('p', oid, 0)
        g = s.mod.globals.get(nm)
        if g is None: raise Unsupported('unknown global ' + nm)
        ty, init, const = g
        oid = st.alloc(s.mod.size(ty), '@' + nm); st.globals[nm] = oid
        p = P(init, s.mod)
        if p.peek() == ('word', 'zeroinitializer'):
            st.mem[oid].zero.append((0, st.mem[oid].size))
        elif p.peek()[0] is not None and p.peek()[1] != ',' and not (p.peek()[0] == 'word' and p.peek()[1] in ('align', 'section', 'comdat')):
            v = s.ev(st, None, s.dec.val(p, ty))
            if v != UNDEF: s.mem.store(st, s.mod.resolve(ty), v, ('p', oid, 0))
        else:
            st.mem[oid].zero.append((0, st.mem[oid].size))     # external / common: treat as zero initialised
        st.mem[oid].pre = st.frozen      # a global first touched after sym_freeze() existed before the call under test
        return ('p', oid, 0)
    def conc(s, st, x, what='value'):
        if x[0] != 'i': raise Unsupported('concretise %r' % (x[:1],))
        if isinstance(x[2], int): return x[2]
        v = st.subst.get(x[2].get_id())
        if v is None:
            sx = z3.simplify(x[2])
            if z3.is_bv_value(sx): return sx.as_long()
            raise Fork(s.enum_values(st, x, what))
        return v
    def enum_values(s, st, x, what, limit=48):
        vals = []; extra = []
        while len(vals) <= limit:
            r, m = s.check(st, extra if extra else [x[2] == x[2]])
            if r != z3.sat:
                if r == z3.unknown: raise Unsupported('unknown while concretising ' + what)
                break
            v = m[0].eval(x[2], model_completion=True).as_long(); vals.append(v); extra.append(x[2] != v)
        if len(vals) > limit: raise Unsupported('more than %d values to concretise (%s)' % (limit, what))
        if not vals: raise PathEnd()
        s.stats['forks'] += 1
        return [(x[2] == v, x[2].get_id(), v) for v in vals]
    def cast(s, op, x, ft, tt):
        if op == 'bitcast':
            if tt.k == 'ptr': return x
            if tt.k in ('int', 'double'): return s.mem.coerce(x, tt)
            return x
        if op == 'ptrtoint':
            if x[0] == 'p' and x[1] is None: return iv(tt.a, x[2])
            return ('pi', x)
        if op == 'inttoptr':
            if x[0] == 'pi': return x[1]
            if x[0] == 'i' and isinstance(x[2], int): return ('p', None, x[2])
            raise Unsupported('inttoptr of symbolic integer')
        return x
    # ------------------------------------------------------------ arithmetic
    def ibin(s, op, a, b):
        if a[0] == 'undef' or b[0] == 'undef': return UNDEF
        if a[0] == 'pi' or b[0] == 'pi':
            if op == 'sub' and a[0] == 'pi' and b[0] == 'pi':
                pa, pb = a[1], b[1]
                if pa[0] == 'p' and pb[0] == 'p' and pa[1] == pb[1]: return iv(64, pa[2] - pb[2])
                raise Unsupported('pointer difference across objects')
            if op in ('add', 'sub') and a[0] == 'pi' and b[0] == 'i' and isinstance(b[2], int) and a[1][0] == 'p':
                d = to_signed(b[2], 64); return ('pi', ('p', a[1][1], a[1][2] + (d if op == 'add' else -d)))
            if op == 'add' and b[0] == 'pi' and a[0] == 'i' and isinstance(a[2], int) and b[1][0] == 'p':
                return ('pi', ('p', b[1][1], b[1][2] + to_signed(a[2], 64)))
            if op == 'and' and a[0] == 'pi' and b[0] == 'i' and isinstance(b[2], int) and a[1][0] == 'p':
                return iv(64, a[1][2] & b[2]) if b[2] < 16 else a   # alignment tests: objects are 16-aligned
            raise Unsupported('int op on pointer: ' + op)
        if a[0] == 'fi' or b[0] == 'fi': raise Unsupported('integer arithmetic on the bits of a symbolic double: ' + op)
        w = a[1]; x, y = a[2], b[2]
        if isinstance(x, int) and isinstance(y, int):
            sx, sy = to_signed(x, w), to_signed(y, w)
            if op in ('udiv', 'urem', 'sdiv', 'srem') and y == 0: raise MemViolation('integer division by zero')
            if op == 'add': r = x + y
            elif op == 'sub': r = x - y
            elif op == 'mul': r = x * y
            elif op == 'and': r = x & y
            elif op == 'or': r = x | y
            elif op == 'xor': r = x ^ y
            elif op == 'shl': r = x << y if y < w else 0
            elif op == 'lshr': r = x >> y if y < w else 0
            elif op == 'ashr': r = sx >> min(y, w - 1)
            elif op == 'udiv': r = x // y
            elif op == 'urem': r = x % y
            elif op == 'sdiv': r = (abs(sx) // abs(sy)) * (1 if (sx < 0) == (sy < 0) else -1)
            else: r = sx - sy * ((abs(sx) // abs(sy)) * (1 if (sx < 0) == (sy < 0) else -1))
            return iv(w, r)
        X, Y = bvz(a), bvz(b)
        if op == 'add': r = X + Y
        elif op == 'sub': r = X - Y
        elif op == 'mul': r = X * Y
        elif op == 'and': r = X & Y
        elif op == 'or': r = X | Y
        elif op == 'xor': r = X ^ Y
        elif op == 'shl': r = X << Y
        elif op == 'lshr': r = z3.LShR(X, Y)
        elif op == 'ashr': r = X >> Y
        elif op == 'udiv': r = z3.UDiv(X, Y)
        elif op == 'urem': r = z3.URem(X, Y)
        elif op == 'sdiv': r = X / Y
        else: r = z3.SRem(X, Y)
        r = z3.simplify(r)
        if z3.is_bv_value(r): return iv(w, r.as_long())
        return ('i', w, r)
    def icmp(s, pred, a, b):
        if a[0] == 'undef' or b[0] == 'undef': return iv(1, 0)
        if a[0] in ('p', 'fn', 'pi') or b[0] in ('p', 'fn', 'pi'):
            pa = a[1] if a[0] == 'pi' else a; pb = b[1] if b[0] == 'pi' else b
            if pa[0] == 'i':
                if pa[2] == 0: pa = NULL
                else: raise Unsupported('pointer compared with integer')
            if pb[0] == 'i':
                if pb[2] == 0: pb = NULL
                else: raise Unsupported('pointer compared with integer')
            if pred == 'eq': return iv(1, int(pa == pb))
            if pred == 'ne': return iv(1, int(pa != pb))
            if pa[0] == 'p' and pb[0] == 'p' and pa[1] == pb[1]: return s.icmp(pred, iv(64, pa[2]), iv(64, pb[2]))
            raise Unsupported('ordered pointer compare across objects')
        if a[0] == 'fi' or b[0] == 'fi':
            if a[0] == 'fi' and b[0] == 'fi' and pred in ('eq', 'ne'):
                c = s.same(a[1], b[1]); c = c if pred == 'eq' else (not c if isinstance(c, bool) else z3.Not(c))
                return iv(1, int(c)) if isinstance(c, bool) else zbool(c)
            raise Unsupported('integer compare on the bits of a symbolic double')
        w = a[1]; x, y = a[2], b[2]
        if isinstance(x, int) and isinstance(y, int):
            sx, sy = to_signed(x, w), to_signed(y, w)
            return iv(1, int({'eq': x == y, 'ne': x != y, 'ult': x < y, 'ule': x <= y, 'ugt': x > y, 'uge': x >= y,
                              'slt': sx < sy, 'sle': sx <= sy, 'sgt': sx > sy, 'sge': sx >= sy}[pred]))
        X, Y = bvz(a), bvz(b)
        if pred == 'eq': c = X == Y
        elif pred == 'ne': c = X != Y
        elif pred == 'ult': c = z3.ULT(X, Y)
        elif pred == 'ule': c = z3.ULE(X, Y)
        elif pred == 'ugt': c = z3.UGT(X, Y)
        elif pred == 'uge': c = z3.UGE(X, Y)
        elif pred == 'slt': c = X < Y
        elif pred == 'sle': c = X <= Y
        elif pred == 'sgt': c = X > Y
        else: c = X >= Y
        return zbool(z3.simplify(c))
    def uf(s, name, nargs, args_sorts=None):
        f = s.ufs.get(name)
        if f is None:
            sorts = args_sorts or [s.srt]*nargs
            f = s.ufs[name] = z3.Function(name, *(sorts + [s.srt]))
        return f
    def fbin(s, op, a, b):
        if a[0] == 'undef' or b[0] == 'undef': return UNDEF
        x, y = a[1], b[1]
        if isinstance(x, float) and isinstance(y, float):
            if s.mode == 'real' and x == x and y == y and abs(x) != float('inf') and abs(y) != float('inf') and not (op in ('fdiv', 'frem') and y == 0):
                # exact-real reading also for constant folding: keep the float only when the IEEE result is exact
                from fractions import Fraction
                fx, fy = Fraction(x), Fraction(y)
                ex_ = fx + fy if op == 'fadd' else fx - fy if op == 'fsub' else fx * fy if op == 'fmul' else fx / fy if op == 'fdiv' else None
                if ex_ is not None:
                    try: fl = float(ex_)
                    except OverflowError: fl = None
                    if fl is not None and Fraction(fl) == ex_: return ('f', fl)
                    return ('f', z3.RealVal('%d/%d' % (ex_.numerator, ex_.denominator)))
            if op == 'fadd': return ('f', x + y)
            if op == 'fsub': return ('f', x - y)
            if op == 'fmul': return ('f', x * y)
            if op == 'fdiv': return ('f', fdiv_conc(x, y))
            return ('f', math.fmod(x, y) if y != 0 and abs(x) != float('inf') else float('nan'))
        if s.mode == 'conc': raise Unsupported('symbolic float in concrete mode')
        if s.mode == 'real':
            # identities that keep the terms linear where possible
            if op == 'fmul':
                if isinstance(x, float) and x == 0.0: return ('f', 0.0)
                if isinstance(y, float) and y == 0.0: return ('f', 0.0)
            X, Y = s.fz(a), s.fz(b)
            if op == 'fadd': return ('f', X + Y)
            if op == 'fsub': return ('f', X - Y)
            if op == 'fmul': return ('f', X * Y)
            if op == 'fdiv':
                if isinstance(y, float) or not s.div_as_mul: return ('f', X / Y)          # division by a constant stays linear
                return ('f', X * (1 / Y))                             # x/y as x*(1/y): lets simplify() bring rational terms to one normal form (per-obligation switch)
            raise Unsupported('frem in real mode')
        X, Y = s.fz(a), s.fz(b)
        if s.mode == 'fpa':          # every arithmetic result is arbitrary (sound over-approximation for safety/termination claims)
            if op in ('fmul', 'fadd') and X.get_id() > Y.get_id(): X, Y = Y, X
            return ('f', s.uf('uf_' + op, 2)(X, Y))
        if s.mode == 'fpu' and op in ('fmul', 'fdiv', 'frem') and not isinstance(x, float) and not isinstance(y, float):
            if op == 'fmul' and X.get_id() > Y.get_id(): X, Y = Y, X
            return ('f', s.uf('uf_' + op, 2)(X, Y))
        if op == 'fadd': return ('f', z3.fpAdd(RNE, X, Y))
        if op == 'fsub': return ('f', z3.fpSub(RNE, X, Y))
        if op == 'fmul': return ('f', z3.fpMul(RNE, X, Y))
        if op == 'fdiv': return ('f', z3.fpDiv(RNE, X, Y))
        return ('f', z3.fpRem(X, Y))
    def fcmp(s, pred, a, b):
        if a[0] == 'undef' or b[0] == 'undef': return iv(1, 0)
        x, y = a[1], b[1]
        if pred == 'true': return iv(1, 1)
        if pred == 'false': return iv(1, 0)
        if isinstance(x, float) and isinstance(y, float):
            un = x != x or y != y
            o = {'oeq': x == y, 'one': x != y and not un, 'olt': x < y, 'ole': x <= y, 'ogt': x > y, 'oge': x >= y, 'ord': not un,
                 'ueq': x == y or un, 'une': x != y, 'ult': x < y or un, 'ule': x <= y or un, 'ugt': x > y or un, 'uge': x >= y or un, 'uno': un}[pred]
            return iv(1, int(o))
        if s.mode == 'real':
            for c_, o_, flip in ((x, y, False), (y, x, True)):
                if isinstance(c_, float) and (c_ != c_ or abs(c_) == float('inf')):
                    if c_ != c_: return iv(1, int(pred[0] == 'u'))
                    # symbolic operand is finite: compare with ±inf
                    big = c_ > 0      # c_ is +inf
                    lt = (not big) if not flip else big     # (c_ < o_) if not flip else (o_ < c_)
                    rel = pred[1:] if pred not in ('ord', 'uno') else pred
                    if rel == 'ord': return iv(1, 1)
                    if rel == 'uno': return iv(1, 0)
                    res = {'eq': False, 'ne': True, 'lt': lt, 'le': lt, 'gt': not lt, 'ge': not lt}[rel]
                    return iv(1, int(res))
            X, Y = s.fz(a), s.fz(b)
            if pred == 'ord': return iv(1, 1)
            if pred == 'uno': return iv(1, 0)
            rel = pred[1:]
            c = {'eq': lambda: X == Y, 'ne': lambda: X != Y, 'lt': lambda: X < Y, 'le': lambda: X <= Y, 'gt': lambda: X > Y, 'ge': lambda: X >= Y}[rel]()
            return zbool(z3.simplify(c))
        X, Y = s.fz(a), s.fz(b)
        un = z3.Or(z3.fpIsNaN(X), z3.fpIsNaN(Y))
        if pred == 'ord': return zbool(z3.Not(un))
        if pred == 'uno': return zbool(un)
        rel = pred[1:]
        base = {'eq': lambda: z3.fpEQ(X, Y), 'ne': lambda: z3.Not(z3.fpEQ(X, Y)), 'lt': lambda: z3.fpLT(X, Y), 'le': lambda: z3.fpLEQ(X, Y),
                'gt': lambda: z3.fpGT(X, Y), 'ge': lambda: z3.fpGEQ(X, Y)}[rel]()
        if pred[0] == 'o': c = z3.And(z3.Not(un), base) if rel == 'ne' else base     # fp.eq/lt/... are false on NaN already
        else: c = z3.Or(un, base)
        return zbool(c)
    def same(s, a, b):
        """bit identity of two doubles (NaN is NaN, +0 is not -0)"""
        x, y = a[1], b[1]
        if isinstance(x, float) and isinstance(y, float): return d2bits(x) == d2bits(y) or (x != x and y != y)
        if s.mode == 'real': return s.fz(a) == s.fz(b)
        return s.fz(a) == s.fz(b)         # SMT '=' on FloatingPoint: structural (NaN = NaN, +0 != -0)
    # ------------------------------------------------------------ run loop
    def start_state(s, entry, args=()):
        st = State(); f = s.mod.funcs[entry]; s.prep(f)
        if s.record_reads: st.reads = set()
        fr = Frame(f); fr.block = f.order[0]; fr.code = f.code[fr.block]; st.frames.append(fr)
        for pn, a in zip(f.pnames, args): fr.regs[pn] = a
        return st
    def prep(s, f):
        if getattr(f, 'code', None) is not None: return
        f.prepare(); f.code = {}
        for b, lines in f.blocks.items():
            f.code[b] = lines          # decoded lazily (string -> tuple via cache)
        f.dcode = {}
    def run(s, entry, args=(), time_cap=None):
        if time_cap: s.deadline = time.time() + time_cap
        work = [s.start_state(entry, args)]
        while work:
            st = work.pop()
            outcome = 'END'
            try:
                s.run_path(st, work)
            except Throw:
                s.stats['throws'] += 1; outcome = 'THROW'
            except PathEnd as e:
                outcome = str(e) or 'END'
            except BoundExceeded:
                s.stats['bound_exceeded'] += 1; outcome = 'BOUND-EXCEEDED'
                s.undecided.append(('BOUND-EXCEEDED', 'iteration cap %d reached on a feasible path' % s.max_steps))
            s.stats['paths'] += 1; s.stats['steps'] += st.steps
            s.on_path_end(st, outcome)
    def on_path_end(s, st, outcome):
        s.last_outcome = outcome
        if outcome in ('INFEASIBLE', 'ASSUME-FALSE'): s.stats['infeasible'] += 1; return
        s.reached['__path_' + outcome] = s.reached.get('__path_' + outcome, 0) + 1
        if len(s.completed_models) < s.keep_models and outcome in ('END', 'THROW'):
            m = st.model[0] if (st.model is not None and st.model[1] is None) else s.full_model(st)
            if m is not None: s.completed_models.append((s.model_inputs(m, st.inputs), outcome, list(st.outs)))
    def model_inputs(s, m, inputs):
        out = []
        for name, kind, sym in inputs:
            v = m.eval(sym, model_completion=True)
            if kind == 'f64':
                if s.mode == 'real':
                    if z3.is_rational_value(v): out.append((name, kind, v.numerator_as_long() / v.denominator_as_long(), str(v)))
                    else: out.append((name, kind, float(v.approx(20).as_decimal(20).rstrip('?')), str(v)))
                else:
                    if z3.fpIsNaN(v) is not None and z3.is_true(z3.simplify(z3.fpIsNaN(v))): out.append((name, kind, float('nan'), 'nan'))
                    else:
                        bvv = z3.simplify(z3.fpToIEEEBV(v)); out.append((name, kind, bits2d(bvv.as_long()), '0x%016x' % bvv.as_long()))
            else: out.append((name, kind, v.as_long(), str(v.as_long())))
        return out
    def unwind(s, st):
        """C++ throw: transfer to the nearest enclosing harness frame that sits on an invoke; False if none"""
        while st.frames:
            fr = st.frames[-1]
            if fr.fn.name.startswith(s.harness_prefix) or fr.fn.name.startswith('__wrap_'):
                ins = s.dec.decode(fr.code[fr.ip])
                if ins[0] == 'call' and ins[4] is not None:
                    text = fr.code[fr.ip]; i = text.find('unwind label %')
                    if i >= 0:
                        lab = text[i+14:].split()[0].strip('"'); fr.prev = fr.block; fr.block = lab; fr.code = fr.fn.code[lab]; fr.ip = 0
                        return True
            for oid in fr.allocas: st.wobj(oid).freed = True
            st.frames.pop()
        return False
    def run_path(s, st, work):
        dec = s.dec.decode
        while True:
            fr = st.frames[-1]
            text = fr.code[fr.ip]
            st.steps += 1
            if st.steps > s.max_steps: raise BoundExceeded()
            try:
                s.step(st, fr, dec(text), work)
            except Fork as fk:
                for c, key, val in fk.alts[1:]:
                    t = st.clone(); s.add_pc(t, c); t.subst[key] = val; work.append(t)
                c, key, val = fk.alts[0]
                s.add_pc(st, c); st.subst[key] = val        # re-execute the same instruction under the constraint
            except Throw:
                if not s.unwind(st): raise
            except MemViolation as e:
                m = s.full_model(st); r = z3.sat if m is not None else z3.unknown
                where = '%s block %s: %s' % (fr.fn.name[:100], fr.block, text[:160])
                if r == z3.sat: s.violations.append(Violation('memory', str(e), m, st, where))
                elif r == z3.unknown: s.undecided.append(('memory?', str(e) + ' @ ' + where))
                raise PathEnd('MEMVIOLATION')
            except (Unsupported, PathEnd, BoundExceeded): raise
            except (TypeError, KeyError, IndexError, AttributeError, ValueError, z3.Z3Exception) as e:
                import traceback
                raise Unsupported('%s: %s\n  in %s block %s (prev %s): %s\n%s' % (type(e).__name__, e, fr.fn.name[:90], fr.block, fr.prev, text[:200], traceback.format_exc(limit=4)))
    def goto(s, fr, lab):
        fr.prev = fr.block; fr.block = lab; fr.code = fr.fn.code[lab]; fr.ip = 0
    def branch(s, st, work, cond, lt, lf):
        fr = st.frames[-1]
        if isinstance(cond, bool): s.goto(fr, lt if cond else lf); return
        cond = z3.simplify(cond)
        if z3.is_true(cond): s.goto(fr, lt); return
        if z3.is_false(cond): s.goto(fr, lf); return
        d_ = st.subst.get(cond.get_id())
        if d_ is not None: s.goto(fr, lt if d_ else lf); return
        if s.mode == 'conc': raise Unsupported('symbolic branch in concrete mode')
        ncond = z3.Not(cond)
        ft, mt = s.feasible(st, cond); ff, mf = s.feasible(st, ncond)
        if ft and ff:
            s.stats['forks'] += 1
            t = st.clone(); t.pc.append(ncond); t.model = mf; t.subst[cond.get_id()] = False; s.goto(t.frames[-1], lf); work.append(t)
            st.pc.append(cond); st.model = mt; st.subst[cond.get_id()] = True; s.goto(fr, lt)
        elif ft: s.goto(fr, lt)
        elif ff: s.goto(fr, lf)
        else: raise PathEnd('INFEASIBLE')
    # ------------------------------------------------------------ one instruction
    def step(s, st, fr, ins, work):
        op = ins[0]; dest = ins[1]; regs = fr.regs; ev = s.ev
        if op == 'load':
            regs[dest] = s.mem.load(st, ins[2], ev(st, fr, ins[3])); fr.ip += 1; return
        if op == 'store':
            s.mem.store(st, ins[2], ev(st, fr, ins[3]), ev(st, fr, ins[4])); fr.ip += 1; return
        if op == 'gep':
            base = ev(st, fr, ins[2]); const, steps = ins[3]
            if base[0] == 'undef': raise Unsupported('gep on undef pointer')
            if base[0] != 'p': raise Unsupported('gep on %r' % (base[:1],))
            off = base[2] + const
            for d, es in steps:
                i = ev(st, fr, d)
                try: off += to_signed(s.conc(st, i, 'index'), i[1]) * es
                except Unsupported as e:
                    # an index with too many feasible values: if it can also leave the object, that is the finding
                    if 'values to concretise' in str(e) and base[1] is not None and not isinstance(i[2], int):
                        o = st.mem[base[1]]; w = i[1]; lim = max(0, (o.size - off) // es)
                        r, m = s.check(st, [z3.UGT(i[2], z3.BitVecVal(lim, w))] if not True else [z3.Or(z3.UGT(i[2], z3.BitVecVal(lim, w)))])
                        if r == z3.sat: raise MemViolation('index into %s can exceed its %d elements (symbolic index out of bounds)' % (o.name, lim))
                    raise
            regs[dest] = ('p', base[1], off); fr.ip += 1; return
        if op == 'ibin':
            regs[dest] = s.ibin(ins[2], ev(st, fr, ins[3]), ev(st, fr, ins[4])); fr.ip += 1; return
        if op == 'icmp':
            regs[dest] = s.icmp(ins[2], ev(st, fr, ins[3]), ev(st, fr, ins[4])); fr.ip += 1; return
        if op == 'fbin':
            a = ev(st, fr, ins[3]); b = ev(st, fr, ins[4])
            if ins[5].k == 'vec':
                regs[dest] = ('agg', [s.fbin(ins[2], x, y) for x, y in zip(a[1], b[1])])
            else:
                if s.domain_checks and s.domain_fdiv and ins[2] == 'fdiv': s.domain_div(st, fr, b)
                regs[dest] = s.fbin(ins[2], a, b)
            fr.ip += 1; return
        if op == 'fcmp':
            regs[dest] = s.fcmp(ins[2], ev(st, fr, ins[3]), ev(st, fr, ins[4])); fr.ip += 1; return
        if op == 'br':
            c = ev(st, fr, ins[2])
            if c[0] == 'undef': raise Unsupported('branch on undef')
            return s.branch(st, work, as_cond(c), ins[3], ins[4])
        if op == 'jmp':
            s.goto(fr, ins[2]); return
        if op == 'phi':
            # all phis of a block read the values from before the block: evaluate the whole group at once
            code = fr.code; ip = fr.ip; vals = []
            while True:
                pi_ = s.dec.decode(code[ip])
                if pi_[0] != 'phi': break
                vals.append((pi_[1], ev(st, fr, pi_[2][fr.prev]))); ip += 1
            for d_, v in vals: regs[d_] = v
            fr.ip = ip; return
        if op == 'call': return s.call(st, fr, ins, work)
        if op == 'ret':
            rv = ev(st, fr, ins[2]) if ins[2] is not None else None
            for oid in fr.allocas: st.wobj(oid).freed = True
            st.frames.pop()
            if not st.frames: raise PathEnd('END')
            caller = st.frames[-1]; d, nxt = fr.ret_to
            if d is not None: caller.regs[d] = rv
            if nxt is None: caller.ip += 1
            else: s.goto(caller, nxt)
            return
        if op == 'select':
            c = ev(st, fr, ins[2]); a = ev(st, fr, ins[3]); b = ev(st, fr, ins[4])
            if c[0] == 'undef': raise Unsupported('select on undef')
            if c[0] == 'agg': raise Unsupported('vector select')
            if isinstance(c[2], int): regs[dest] = a if c[2] else b; fr.ip += 1; return
            cb = as_cond(c)
            d_ = st.subst.get(cb.get_id())
            if d_ is not None: regs[dest] = a if d_ else b; fr.ip += 1; return
            if a[0] == 'i' and b[0] == 'i': regs[dest] = iv(a[1], z3.If(cb, bvz(a), bvz(b))); fr.ip += 1; return
            if a[0] == 'f' and b[0] == 'f' and not (s.mode == 'real' and s.fork_select): regs[dest] = ('f', z3.If(cb, s.fz(a), s.fz(b))); fr.ip += 1; return
            if a == b: regs[dest] = a; fr.ip += 1; return
            alts = []
            for c_, v_ in ((cb, True), (z3.Not(cb), False)):
                ok, _ = s.feasible(st, c_)
                if ok: alts.append((c_, cb.get_id(), v_))
            if not alts: raise PathEnd('INFEASIBLE')
            raise Fork(alts)
        if op == 'cast':
            regs[dest] = s.cast(ins[2], ev(st, fr, ins[3]), ins[4], ins[5]); fr.ip += 1; return
        if op == 'iext':
            x = ev(st, fr, ins[3]); w = ins[4]; k = ins[2]
            if x[0] in ('pi', 'fi', 'undef'): regs[dest] = x if k != 'trunc' or x[0] == 'undef' else s.trunc_special(x, w)
            elif isinstance(x[2], int): regs[dest] = iv(w, x[2] if k != 'sext' else to_signed(x[2], x[1]))
            elif k == 'zext': regs[dest] = ('i', w, z3.ZeroExt(w - x[1], x[2]))
            elif k == 'sext': regs[dest] = ('i', w, z3.SignExt(w - x[1], x[2]))
            else: regs[dest] = ('i', w, z3.simplify(z3.Extract(w - 1, 0, x[2])))
            fr.ip += 1; return
        if op == 'alloca':
            n = s.conc(st, ev(st, fr, ins[3]), 'alloca count')
            oid = st.alloc(ins[2] * n, 'alloca:%s:%s' % (fr.fn.name[:40], dest)); fr.allocas.append(oid); regs[dest] = ('p', oid, 0); fr.ip += 1; return
        if op == 'switch':
            v = ev(st, fr, ins[2]); cases = ins[4]
            if isinstance(v[2], int): s.goto(fr, dict(cases).get(v[2], ins[3])); return
            key = v[2].get_id()
            if key in st.subst: s.goto(fr, dict(cases).get(st.subst[key], ins[3])); return
            if ('dflt', key) in st.subst: s.goto(fr, ins[3]); return
            alts = [(v[2] == c, key, c) for c, _ in cases] + [(z3.And([v[2] != c for c, _ in cases]), ('dflt', key), True)]
            out = [a for a in alts if s.feasible(st, a[0])[0]]
            if not out: raise PathEnd('INFEASIBLE')
            s.stats['forks'] += 1
            raise Fork(out)
        if op == 'fneg':
            a = ev(st, fr, ins[2])
            if a[0] == 'undef': regs[dest] = a
            elif isinstance(a[1], float): regs[dest] = ('f', -a[1])
            else: regs[dest] = ('f', -a[1] if s.mode == 'real' else z3.fpNeg(a[1]))
            fr.ip += 1; return
        if op == 'itofp':
            x = ev(st, fr, ins[3]); sg = ins[2] == 'sitofp'
            if isinstance(x[2], int): regs[dest] = ('f', float(to_signed(x[2], x[1]) if sg else x[2]))
            elif s.mode == 'fpa': regs[dest] = ('f', s.uf('uf_itofp%d' % x[1], 1, [z3.BitVecSort(x[1])])(x[2]))      # abstract reading: conversions are arbitrary too
            elif s.mode == 'real': regs[dest] = ('f', z3.ToReal(z3.BV2Int(x[2], sg)))
            else: regs[dest] = ('f', z3.fpSignedToFP(RNE, x[2], F64) if sg else z3.fpUnsignedToFP(RNE, x[2], F64))
            fr.ip += 1; return
        if op == 'fptoi':
            x = ev(st, fr, ins[3]); w = ins[4]
            if isinstance(x[1], float):
                if x[1] != x[1] or abs(x[1]) >= 2.0**(w - (ins[2] == 'fptosi')): regs[dest] = s.fresh_val(st, INT(w), 'poison_fptoi', hidden=True)
                else: regs[dest] = iv(w, int(x[1]))
            elif s.mode == 'fpa': regs[dest] = s.fresh_val(st, INT(w), 'fptoi', hidden=True)
            elif s.mode == 'real':
                X = x[1]; t = z3.If(X >= 0, z3.ToInt(X), -z3.ToInt(-X)); regs[dest] = ('i', w, z3.Int2BV(t, w))
            else: regs[dest] = ('i', w, z3.fpToSBV(z3.RTZ(), x[1], z3.BitVecSort(w)) if ins[2] == 'fptosi' else z3.fpToUBV(z3.RTZ(), x[1], z3.BitVecSort(w)))
            fr.ip += 1; return
        if op == 'fpconv':
            regs[dest] = ev(st, fr, ins[3]); fr.ip += 1; return     # float<->double: floats are carried as doubles (only used for constants)
        if op == 'extractvalue':
            v = ev(st, fr, ins[2])
            for i in ins[3]: v = v[1][i] if v[0] == 'agg' else UNDEF
            regs[dest] = v; fr.ip += 1; return
        if op == 'insertvalue':
            a = ev(st, fr, ins[2]); e = ev(st, fr, ins[3])
            def ins_(agg, idx, ty):
                ty = s.mod.resolve(ty)
                l = list(agg[1]) if agg[0] == 'agg' else list(s.dec.zero_agg(ty, True)[1])
                sub = ty.a[idx[0]] if ty.k == 'struct' else ty.b
                l[idx[0]] = e if len(idx) == 1 else ins_(l[idx[0]], idx[1:], sub); return ('agg', l)
            regs[dest] = ins_(a, ins[4], ins[5]); fr.ip += 1; return
        if op == 'extractelement':
            a = ev(st, fr, ins[2]); i = ev(st, fr, ins[3]); regs[dest] = a[1][s.conc(st, i)] if a[0] == 'agg' else UNDEF; fr.ip += 1; return
        if op == 'insertelement':
            a = ev(st, fr, ins[2]); e = ev(st, fr, ins[3]); i = s.conc(st, ev(st, fr, ins[4]))
            l = list(a[1]) if a[0] == 'agg' else [UNDEF]*ins[5].a; l[i] = e; regs[dest] = ('agg', l); fr.ip += 1; return
        if op == 'shufflevector':
            a = ev(st, fr, ins[2]); b = ev(st, fr, ins[3]); m = ev(st, fr, ins[4]); n = ins[5]
            src = (list(a[1]) if a[0] == 'agg' else [UNDEF]*n) + (list(b[1]) if b[0] == 'agg' else [UNDEF]*n)
            regs[dest] = ('agg', [src[x[2]] if x[0] == 'i' else UNDEF for x in m[1]]); fr.ip += 1; return
        if op == 'freeze':
            regs[dest] = ev(st, fr, ins[2]); fr.ip += 1; return
        if op == 'atomicrmw':
            ptr = ev(st, fr, ins[3]); v = ev(st, fr, ins[4]); old = s.mem.load(st, ins[5], ptr)
            new = {'add': lambda: s.ibin('add', old, v), 'sub': lambda: s.ibin('sub', old, v), 'xchg': lambda: v}[ins[2]]()
            s.mem.store(st, ins[5], new, ptr); regs[dest] = old; fr.ip += 1; return
        if op == 'nop': fr.ip += 1; return
        if op == 'unreachable': raise PathEnd('UNREACHABLE')
        if op == 'resume': raise Throw()
        if op == 'landingpad':
            regs[dest] = ('agg', [NULL, iv(32, 1)]); fr.ip += 1; return
        raise Unsupported('opcode ' + op)
    def trunc_special(s, x, w):
        raise Unsupported('truncation of pointer/double bits')
    # ------------------------------------------------------------ calls
    def call(s, st, fr, ins, work):
        _, dest, calleed, argds, nxt, rty = ins
        callee = s.ev(st, fr, calleed)
        if callee[0] != 'fn': raise Unsupported('indirect call through %r' % (callee[:2],))
        name = callee[1]
        args = [s.ev(st, fr, a) for a in argds]
        def ret(v=None):
            if dest is not None: fr.regs[dest] = v
            if nxt is None: fr.ip += 1
            else: s.goto(fr, nxt)
        if name.startswith('__real_'): name = name[7:]
        else:
            w = s.mod.funcs.get('__wrap_' + name)
            if w is not None and not fr.fn.name.startswith('__wrap_' + name): name = '__wrap_' + name
        s.called.add(name)
        if name == 'sym_run_ctors':
            # run the dynamic initialisers of one repository translation unit (namespace-scope std::string constants etc.); the executor never runs global constructors on its own
            tu = s.mem.cstr(st, args[0]); f = s.mod.funcs.get('_GLOBAL__sub_I_' + tu)
            if f is None: raise Unsupported('no global constructor function for translation unit ' + tu)
            s.prep(f); nf = Frame(f); nf.block = f.order[0]; nf.code = f.code[nf.block]; nf.ret_to = (None, nxt)
            st.frames.append(nf); return
        if name == 'sym_decide':
            # harness primitive: case split on a condition, returns a concrete bool on each side (keeps oracle code free of ite terms)
            c = args[0]
            def setret(frame, v):
                if dest is not None: frame.regs[dest] = iv(1, v)
                if nxt is None: frame.ip += 1
                else: s.goto(frame, nxt)
            if isinstance(c[2], int): return setret(fr, c[2] & 1)
            cond = z3.simplify(as_cond(c))
            if z3.is_true(cond): return setret(fr, 1)
            if z3.is_false(cond): return setret(fr, 0)
            d_ = st.subst.get(cond.get_id())
            if d_ is not None: return setret(fr, int(d_))
            ncond = z3.Not(cond)
            ft, mt = s.feasible(st, cond); ff, mf = s.feasible(st, ncond)
            if ft and ff:
                s.stats['forks'] += 1
                t = st.clone(); t.pc.append(ncond); t.model = mf; t.subst[cond.get_id()] = False; setret(t.frames[-1], 0); work.append(t)
                st.pc.append(cond); st.model = mt; st.subst[cond.get_id()] = True; return setret(fr, 1)
            if ft: return setret(fr, 1)
            if ff: return setret(fr, 0)
            raise PathEnd('INFEASIBLE')
        for pat, cb in s.overrides.items():
            if pat in name:
                return ret(cb(s, st, args, name))
        f = s.mod.funcs.get(name)
        if f is None or name in EXTERN_FIRST:
            h = s.extern(name)
            if h is not None: return ret(h(st, args))
            if f is None: raise Unsupported('external ' + name)
        s.prep(f); nf = Frame(f); nf.block = f.order[0]; nf.code = f.code[nf.block]; nf.ret_to = (dest, nxt)
        r = nf.regs
        for pn, a in zip(f.pnames, args): r[pn] = a
        st.frames.append(nf)
        if len(st.frames) > 200: raise BoundExceeded()
    def extern(s, name):
        h = s.ext_cache.get(name, 0) if hasattr(s, 'ext_cache') else 0
        if h == 0:
            if not hasattr(s, 'ext_cache'): s.ext_cache = {}
            import externs
            h = s.ext_cache[name] = externs.lookup(s, name)
        return h
    # ------------------------------------------------------------ domain safety (real mode)
    def in_harness(s, fr):
        n = fr.fn.name
        return n.startswith(s.harness_prefix) or n.startswith('__wrap_') or '_GLOBAL__N_' in n or n.startswith('_ZN1H') or n.startswith('_ZL')
    def domain_div(s, st, fr, b):
        if s.in_harness(fr): return
        where = fr.fn.name[:80] + ' ' + fr.block
        if isinstance(b[1], float):
            if b[1] == 0.0: s.domain_issues.append(('fdiv by constant zero in ' + where, None, st))
            return
        r, m = s.check(st, [s.fz(b) == 0])
        if r == z3.sat: s.domain_issues.append(('fdiv: divisor can be zero in ' + where, s.full_model(st, [s.fz(b) == 0]) or m[0], st.clone()))

EXTERN_FIRST = set()
