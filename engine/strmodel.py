"""Model of the out-of-line libstdc++ (cxx11 ABI) std::string members that clang leaves as external calls.
Layout: { char *p; size_t size; union { char local[16]; size_t capacity; } } = 32 bytes. Lengths must be concrete; characters may be symbolic."""
from llir import I8, I64, PTR
from vals import *

PFX = '_ZNSt7__cxx1112basic_stringIcSt11char_traitsIcESaIcEE'
PFXK = '_ZNKSt7__cxx1112basic_stringIcSt11char_traitsIcESaIcEE'

def _get(ex, st, this):
    mem = ex.mem
    p = mem.load(st, PTR(I8), ('p', this[1], this[2])); n = ex.conc(st, mem.load(st, I64, ('p', this[1], this[2] + 8)), 'string size')
    local = p[0] == 'p' and p[1] == this[1] and p[2] == this[2] + 16
    cap = 15 if local else ex.conc(st, mem.load(st, I64, ('p', this[1], this[2] + 16)), 'string capacity')
    return p, n, cap, local

def _chars(ex, st, p, n): return [ex.mem.load(st, I8, ('p', p[1], p[2] + i)) for i in range(n)]

def _set(ex, st, this, chars):
    mem = ex.mem; p, n, cap, local = _get(ex, st, this); m = len(chars)
    if m > cap:
        ncap = max(m, 2 * cap)
        oid = st.alloc(ncap + 1, 'heap%d' % st.next_obj); np_ = ('p', oid, 0)
        if not local and p[0] == 'p' and p[1] is not None: st.wobj(p[1]).freed = True
        mem.store(st, PTR(I8), np_, ('p', this[1], this[2])); mem.store(st, I64, iv(64, ncap), ('p', this[1], this[2] + 16)); p = np_
    for i, c in enumerate(chars): mem.store(st, I8, c, ('p', p[1], p[2] + i))
    mem.store(st, I8, iv(8, 0), ('p', p[1], p[2] + m)); mem.store(st, I64, iv(64, m), ('p', this[1], this[2] + 8))

def lookup(ex, name):
    mem = ex.mem
    if name == PFX + '9_M_createERmm':
        def f(st, a):
            cap = ex.conc(st, mem.load(st, I64, a[1]), 'string capacity')
            if cap > (1 << 40): raise Throw()
            return ('p', st.alloc(cap + 1, 'heap%d' % st.next_obj), 0)
        return f
    if name == PFX + '12_M_constructEmc':
        def f(st, a):
            this = a[0]; n = ex.conc(st, a[1], 'string length'); p = mem.load(st, PTR(I8), ('p', this[1], this[2]))
            if n > 15:
                oid = st.alloc(n + 1, 'heap%d' % st.next_obj); p = ('p', oid, 0)
                mem.store(st, PTR(I8), p, ('p', this[1], this[2])); mem.store(st, I64, iv(64, n), ('p', this[1], this[2] + 16))
            for i in range(n): mem.store(st, I8, a[2], ('p', p[1], p[2] + i))
            mem.store(st, I8, iv(8, 0), ('p', p[1], p[2] + n)); mem.store(st, I64, iv(64, n), ('p', this[1], this[2] + 8))
        return f
    if name in (PFX + 'C2EPKcRKS3_', PFX + 'C1EPKcRKS3_'):
        # basic_string(const char *, const allocator &)
        def f(st, a):
            this = a[0]; lit = mem.cstr(st, a[1], limit=4096); n = len(lit)
            if n > 15:
                oid = st.alloc(n + 1, 'heap%d' % st.next_obj); p = ('p', oid, 0); mem.store(st, I64, iv(64, n), ('p', this[1], this[2] + 16))
            else: p = ('p', this[1], this[2] + 16)
            mem.store(st, PTR(I8), p, ('p', this[1], this[2]))
            for i, ch in enumerate(lit): mem.store(st, I8, iv(8, ord(ch)), ('p', p[1], p[2] + i))
            mem.store(st, I8, iv(8, 0), ('p', p[1], p[2] + n)); mem.store(st, I64, iv(64, n), ('p', this[1], this[2] + 8))
        return f
    if name == PFX + '7reserveEm':
        def f(st, a):
            this = a[0]; want = ex.conc(st, a[1], 'string capacity'); p, n, cap, local = _get(ex, st, this)
            if want <= cap: return
            chars = _chars(ex, st, p, n)
            oid = st.alloc(want + 1, 'heap%d' % st.next_obj); np_ = ('p', oid, 0)
            if not local and p[0] == 'p' and p[1] is not None: st.wobj(p[1]).freed = True
            mem.store(st, PTR(I8), np_, ('p', this[1], this[2])); mem.store(st, I64, iv(64, want), ('p', this[1], this[2] + 16))
            for i, c in enumerate(chars): mem.store(st, I8, c, ('p', oid, i))
            mem.store(st, I8, iv(8, 0), ('p', oid, n))
        return f
    if name == PFX + '14_M_replace_auxEmmmc':
        def f(st, a):
            p, n, cap, local = _get(ex, st, a[0]); pos = ex.conc(st, a[1]); n1 = ex.conc(st, a[2]); n2 = ex.conc(st, a[3])
            old = _chars(ex, st, p, n); _set(ex, st, a[0], old[:pos] + [a[4]] * n2 + old[pos + n1:]); return a[0]
        return f
    if name == PFX + '10_M_replaceEmmPKcm':
        def f(st, a):
            p, n, cap, local = _get(ex, st, a[0]); pos = ex.conc(st, a[1]); n1 = ex.conc(st, a[2]); n2 = ex.conc(st, a[4])
            old = _chars(ex, st, p, n); new = _chars(ex, st, a[3], n2); _set(ex, st, a[0], old[:pos] + new + old[pos + n1:]); return a[0]
        return f
    if name == PFX + '9_M_assignERKS4_':
        def f(st, a):
            p, n, cap, local = _get(ex, st, a[1]); _set(ex, st, a[0], _chars(ex, st, p, n))
        return f
    if name == PFX + '9_M_appendEPKcm':
        def f(st, a):
            p, n, cap, local = _get(ex, st, a[0]); n2 = ex.conc(st, a[2]); _set(ex, st, a[0], _chars(ex, st, p, n) + _chars(ex, st, a[1], n2)); return a[0]
        return f
    if name == PFX + '9_M_mutateEmmPKcm':
        def f(st, a):
            p, n, cap, local = _get(ex, st, a[0]); pos = ex.conc(st, a[1]); n1 = ex.conc(st, a[2]); n2 = ex.conc(st, a[4])
            old = _chars(ex, st, p, n); new = _chars(ex, st, a[3], n2) if a[3][1] is not None else [iv(8, 0)] * n2
            _set(ex, st, a[0], old[:pos] + new + old[pos + n1:]); mem.store(st, I64, iv(64, n), ('p', a[0][1], a[0][2] + 8))
        return f
    if name == PFXK + '7compareEPKc':
        def f(st, a):
            p, n, cap, local = _get(ex, st, a[0]); s1 = _chars(ex, st, p, n); lit = mem.cstr(st, a[1])
            for i in range(min(n, len(lit))):
                c = s1[i]
                if not isinstance(c[2], int): raise Unsupported('string compare on symbolic characters')
                if (c[2] & 255) != ord(lit[i]): return iv(32, (c[2] & 255) - ord(lit[i]))
            return iv(32, n - len(lit))
        return f
    return None
