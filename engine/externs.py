"""External functions: LLVM intrinsics, allocation, exceptions, libm (uninterpreted + contract axioms), harness primitives."""
import math, ctypes
import os
from llir import *
from vals import *
import z3
from symex import _libm, LIBM1, LIBM2, THROWERS, THROW_PREFIX, Violation

PI = math.pi

def _big(e, limit):
    """does the term have at least `limit` distinct sub-terms? (bounded DAG walk)"""
    seen = set(); todo = [e]
    while todo:
        x = todo.pop(); i = x.get_id()
        if i in seen: continue
        seen.add(i)
        if len(seen) >= limit: return True
        todo.extend(x.children())
    return False

def lookup(ex, name):
    s = ex; mem = ex.mem
    if name.startswith('llvm.'):
        base = name.split('.')[1]
        if base in ('lifetime', 'experimental', 'dbg', 'assume', 'prefetch', 'donothing', 'invariant', 'stackprotector', 'var'): return lambda st, a: None
        if base in ('memcpy', 'memmove'):
            def f(st, a): mem.memcpy(st, a[0], a[1], s.conc(st, a[2], 'memcpy length'))
            return f
        if base == 'memset':
            def f(st, a): mem.memset(st, a[0], s.conc(st, a[1], 'memset byte') & 0xff, s.conc(st, a[2], 'memset length'))
            return f
        if base == 'fabs': return lambda st, a: libm(s, st, 'fabs', a)
        if base in ('floor', 'ceil', 'sqrt', 'round', 'trunc', 'exp', 'log', 'sin', 'cos', 'pow', 'rint', 'nearbyint', 'copysign', 'minnum', 'maxnum', 'fmuladd'):
            if base == 'fmuladd':
                return lambda st, a: s.fbin('fadd', s.fbin('fmul', a[0], a[1]), a[2])
            return lambda st, a: libm(s, st, {'minnum': 'fmin', 'maxnum': 'fmax'}.get(base, base), a)
        if base in ('umax', 'umin', 'smax', 'smin'):
            def f(st, a):
                c = s.icmp({'umax': 'ugt', 'umin': 'ult', 'smax': 'sgt', 'smin': 'slt'}[base], a[0], a[1])
                if isinstance(c[2], int): return a[0] if c[2] else a[1]
                return ('i', a[0][1], z3.If(as_cond(c), bvz(a[0]), bvz(a[1])))
            return f
        if base == 'abs':
            def f(st, a):
                x = a[0]
                if isinstance(x[2], int): return iv(x[1], abs(to_signed(x[2], x[1])))
                return ('i', x[1], z3.If(x[2] < 0, -x[2], x[2]))
            return f
        if base == 'trap':
            def f(st, a): raise Throw()
            return f
        if base == 'expect': return lambda st, a: a[0]
        if base in ('ctlz', 'cttz', 'ctpop'):
            def f(st, a):
                x = a[0]
                if not isinstance(x[2], int): raise Unsupported(base + ' of symbolic value')
                w = x[1]; v = x[2]
                if base == 'ctpop': return iv(w, bin(v).count('1'))
                if v == 0: return iv(w, w)
                if base == 'ctlz': return iv(w, w - v.bit_length())
                return iv(w, (v & -v).bit_length() - 1)
            return f
        if base in ('uadd', 'usub', 'umul', 'sadd', 'ssub', 'smul') and 'with.overflow' in name:
            def f(st, a):
                x, y = a
                w = x[1]; op = base[1:]
                if isinstance(x[2], int) and isinstance(y[2], int):
                    if base[0] == 'u':
                        full = {'add': x[2] + y[2], 'sub': x[2] - y[2], 'mul': x[2] * y[2]}[op]; ovf = not (0 <= full < (1 << w))
                    else:
                        sx, sy = to_signed(x[2], w), to_signed(y[2], w)
                        full = {'add': sx + sy, 'sub': sx - sy, 'mul': sx * sy}[op]; ovf = not (-(1 << (w-1)) <= full < (1 << (w-1)))
                    return ('agg', [iv(w, full), iv(1, int(ovf))])
                X, Y = bvz(x), bvz(y)
                if base[0] == 'u':
                    XX, YY = z3.ZeroExt(w, X), z3.ZeroExt(w, Y)
                    full = {'add': XX + YY, 'sub': XX - YY, 'mul': XX * YY}[op]
                    ovf = z3.Extract(2*w - 1, w, full) != 0
                else:
                    XX, YY = z3.SignExt(w, X), z3.SignExt(w, Y)
                    full = {'add': XX + YY, 'sub': XX - YY, 'mul': XX * YY}[op]
                    ovf = z3.SignExt(w, z3.Extract(w - 1, 0, full)) != full
                return ('agg', [('i', w, z3.simplify(z3.Extract(w - 1, 0, full))), zbool(z3.simplify(ovf))])
            return f
        if base in ('stacksave',): return lambda st, a: NULL
        if base in ('stackrestore',): return lambda st, a: None
        if base == 'is': return None
        return None
    if name in ('_Znwm', '_Znam', 'malloc', '_ZnwmSt11align_val_t', '_ZnwmRKSt9nothrow_t'):
        def f(st, a):
            n = s.conc(st, a[0], 'allocation size')
            if n > (1 << 32): raise Throw()          # bad_alloc / length_error territory
            return ('p', st.alloc(n, 'heap%d' % st.next_obj), 0)
        return f
    if name == 'calloc':
        def f(st, a):
            n = s.conc(st, a[0]) * s.conc(st, a[1]); oid = st.alloc(n, 'heap%d' % st.next_obj); st.mem[oid].zero.append((0, n)); return ('p', oid, 0)
        return f
    if name in ('_ZdlPv', '_ZdaPv', 'free', '_ZdlPvm', '_ZdaPvm', '_ZdlPvSt11align_val_t', '_ZdlPvmSt11align_val_t'):
        def f(st, a):
            p = a[0]
            if p[0] == 'p' and p[1] is not None:
                o = st.mem[p[1]]
                if o.freed: raise MemViolation('double free of ' + o.name)
                if p[2] != 0: raise MemViolation('free of interior pointer into ' + o.name)
                if not o.name.startswith('heap'): raise MemViolation('free of non-heap object ' + o.name)
                if o.pre and not o.allow: st.writes.append('free ' + o.name)
                st.wobj(p[1]).freed = True
            elif p[0] == 'undef': raise MemViolation('free of uninitialised pointer')
        return f
    if name in THROWERS or name in THROW_PREFIX:
        def f(st, a): raise Throw()
        return f
    if name in ('__cxa_begin_catch',): return lambda st, a: a[0]
    if name in ('__cxa_end_catch', '__cxa_free_exception', '__cxa_thread_atexit', '__cxa_guard_release', '__cxa_guard_abort', '__cxa_atexit', '_ZNSt8ios_base4InitC1Ev', '_ZNSt8ios_base4InitD1Ev'):
        return lambda st, a: iv(32, 0)
    if name == '__cxa_guard_acquire':
        def f(st, a):
            g = mem.load(st, I8, a[0])
            if g[2] != 0: return iv(32, 0)
            mem.store(st, I8, iv(8, 1), a[0]); return iv(32, 1)
        return f
    if name == '__gxx_personality_v0': return lambda st, a: iv(32, 0)
    if name in ('strlen',):
        def f(st, a):
            p = a[0]; n = 0
            if p[0] != 'p' or p[1] is None: raise MemViolation('strlen of a null/invalid pointer')
            while n < 4096:
                b = mem.load(st, I8, ('p', p[1], p[2] + n))
                if isinstance(b[2], int):
                    if b[2] & 255 == 0: return iv(64, n)
                else:
                    r, _ = s.check(st, [b[2] == 0], want_model=False)
                    if r != z3.unsat: raise Unsupported('strlen: byte %d may or may not be NUL' % n)
                n += 1
            raise Unsupported('strlen: no terminator within 4096 bytes')
        return f
    if name in ('memcmp', 'bcmp'):
        def f(st, a):
            n = s.conc(st, a[2], 'memcmp length')
            for i in range(n):
                x = mem.load(st, I8, ('p', a[0][1], a[0][2] + i)); y = mem.load(st, I8, ('p', a[1][1], a[1][2] + i))
                if not (isinstance(x[2], int) and isinstance(y[2], int)):
                    c = s.icmp('eq', x, y)
                    if isinstance(c[2], int):
                        if c[2]: continue
                    raise Unsupported('memcmp on symbolic bytes')
                if x[2] != y[2]: return iv(32, (x[2] & 255) - (y[2] & 255))
            return iv(32, 0)
        return f
    if 'basic_stringIcSt11char_traitsIcESaIcEE' in name:
        import strmodel
        return strmodel.lookup(ex, name)
    if name in LIBM1 or name in LIBM2 or name in ('fabs', 'fmin', 'fmax'):
        return lambda st, a: libm(s, st, name, a)
    if name in ('logl', 'expl', 'sqrtl', 'fabsl', 'floorl'):          # long double variants (carried as doubles)
        return lambda st, a: libm(s, st, name[:-1], a)
    if name in ('isnan', '__isnan', '_ZSt5isnand'): return None
    # ---------------------------------------------------------------- harness primitives
    if name == 'sym_f64': return lambda st, a: s.fresh_val(st, DOUBLE, mem.cstr(st, a[0]))
    if name == 'sym_u32': return lambda st, a: s.fresh_val(st, I32, mem.cstr(st, a[0]))
    if name == 'sym_u64': return lambda st, a: s.fresh_val(st, I64, mem.cstr(st, a[0]))
    if name == 'sym_u8': return lambda st, a: s.fresh_val(st, I8, mem.cstr(st, a[0]))
    if name == 'sym_bool':
        def f(st, a):
            v = s.fresh_val(st, I8, mem.cstr(st, a[0]))
            if isinstance(v[2], int): return iv(1, v[2] & 1)
            s.add_pc(st, z3.ULE(v[2], 1)); return ('i', 1, z3.Extract(0, 0, v[2]))
        return f
    if name == 'sym_assume':
        def f(st, a):
            c = a[0]
            if isinstance(c[2], int):
                if not c[2]: raise PathEnd('ASSUME-FALSE')
                return
            cb = z3.simplify(as_cond(c))
            ok, m = s.feasible(st, cb)
            if not ok: raise PathEnd('ASSUME-FALSE')
            st.pc.append(cb); st.model = m
        return f
    if name == 'sym_assert':
        def f(st, a):
            c = a[0]; what = mem.cstr(st, a[1])
            s.stats['asserts'] += 1; s.reached[what] = s.reached.get(what, 0) + 1
            if s.mode == 'conc': s.trace.append(('assert', what, int(bool(c[2])))); return
            if isinstance(c[2], int):
                if not c[2]:
                    m = s.full_model(st)
                    if m is not None: s.violations.append(Violation('assert', what, m, st))
                    else: s.undecided.append((what, 'path condition unknown'))
                else: s.stats['asserts_proved'] += 1
                return
            cb = as_cond(c)
            if _big(cb, 400):
                # large bit-vector conditions (e.g. two copies of a long integer recurrence): the rewriter alone often normalises both sides to the same term
                cs = z3.simplify(cb)
                if z3.is_true(cs): s.stats['asserts_proved'] += 1; return
                if os.environ.get('VERIF_DEBUG_ASSERT'):
                    conj = cs.children() if z3.is_and(cs) else [cs]
                    print('DEBUG assert %s: %d conjuncts remain' % (what, len(conj))); print(str(conj[0])[:3000]); print('PC:', [str(x)[:200] for x in st.pc][:10])
            finalize_axioms(s, st)
            r, m = s.check(st, [z3.Not(cb)])
            if r == z3.sat:
                fm = s.full_model(st, [z3.Not(cb)])
                s.violations.append(Violation('assert', what, fm if fm is not None else m[0], st, '' if fm is not None else 'model covers the relevant slice of the path condition only'))
                s.violations[-1].query = list(st.pc) + [z3.Not(cb)]        # kept for the runner: a better conditioned model is looked for when this one does not reproduce natively
            elif r == z3.unknown: s.undecided.append((what, 'solver unknown'))
            else: s.stats['asserts_proved'] += 1
            s.add_pc(st, cb)        # continue under the assertion (as CBMC does after a checked assert)
        return f
    if name == 'sym_same':
        def f(st, a):
            c = s.same(a[0], a[1])
            return iv(1, int(c)) if isinstance(c, bool) else zbool(c)
        return f
    if name == 'sym_eq':
        def f(st, a):
            x, y = a[0][1], a[1][1]
            if isinstance(x, float) and isinstance(y, float):
                if d2bits(x) == d2bits(y) or (x != x and y != y): return iv(1, 1)
                m = max(1.0, abs(x), abs(y)); return iv(1, int(abs(x - y) <= 1e-9 * m))
            c = s.same(a[0], a[1])
            return iv(1, int(c)) if isinstance(c, bool) else zbool(c)
        return f
    if name == 'sym_reach':
        def f(st, a):
            what = mem.cstr(st, a[0]); s.reached[what] = s.reached.get(what, 0) + 1
        return f
    if name == 'sym_out':
        def f(st, a):
            nm = mem.cstr(st, a[0]); st.outs.append((nm, a[1]))
            if s.mode == 'conc': s.trace.append(('out', nm, a[1][1] if a[1][0] == 'f' else a[1][2]))
        return f
    if name == 'sym_out_u64':
        def f(st, a):
            nm = mem.cstr(st, a[0]); st.outs.append((nm, a[1]))
            if s.mode == 'conc': s.trace.append(('out', nm, a[1][2]))
        return f
    if name in ('sym_uf1', 'sym_uf2', 'sym_uf3', 'sym_uf4'):
        n = int(name[-1])
        def f(st, a):
            if s.mode == 'conc' or (all(isinstance(x[1], float) for x in a[1:]) and isinstance(a[0][2], int) and s.mode == 'conc'):
                return ('f', conc_uf(a[0][2], [x[1] for x in a[1:]]))
            uf = s.uf('harness_uf%d' % n, n + 1, [z3.BitVecSort(32)] + [s.srt]*n)
            return ('f', uf(bvz(a[0]), *[s.fz(x) for x in a[1:]]))
        return f
    if name == 'sym_ufi':
        def f(st, a):
            if s.mode == 'conc': return ('f', conc_uf(7, [float(x[2]) for x in a]))
            uf = s.uf('harness_ufi', 5, [z3.BitVecSort(32)]*5)
            return ('f', uf(*[bvz(x) for x in a]))
        return f
    if name == 'sym_freeze':
        def f(st, a):
            st.frozen = True
            for i in list(st.mem):
                o = st.mem[i]
                if not o.freed and not o.pre and not o.name.startswith('alloca:'):
                    o = st.wobj(i); o.pre = True
        return f
    if name == 'sym_allow':
        def f(st, a):
            if a[0][0] == 'p' and a[0][1] is not None: st.wobj(a[0][1]).allow = True
        return f
    if name == 'sym_writes':
        def f(st, a):
            if st.writes: st.log.append('writes to pre-existing objects: ' + ', '.join(st.writes[:6]))
            return iv(32, len(st.writes))
        return f
    if name == 'sym_event':
        def f(st, a): st.events.append((mem.cstr(st, a[0]), a[1]))
        return f
    if name == 'sym_is_symbolic': return lambda st, a: iv(1, int(s.mode != 'conc'))
    return None

def conc_uf(ident, xs):
    """the concrete stand-in for harness UFs; replay_rt.cc implements the same arithmetic"""
    r = ident * 0.7310585786300049 + 0.125
    c = [1.5, 0.25, -3.0, 0.0625]
    for k, x in zip(c, xs): r = r + k * x
    return r

def libm_conc(name, xs):
    if name == 'fabs': return abs(xs[0])
    if name == 'fmin': return _libm.fmin(*xs)
    if name == 'fmax': return _libm.fmax(*xs)
    return getattr(_libm, name)(*xs)

def libm(s, st, name, a):
    if any(x[0] == 'undef' for x in a): return UNDEF
    if a[0][0] == 'agg': raise Unsupported('vector libm')
    if all(isinstance(x[1], float) for x in a): return ('f', libm_conc(name, [x[1] for x in a]))
    if s.mode == 'conc': raise Unsupported('symbolic libm argument in concrete mode')
    if s.mode != 'real':
        X = [s.fz(x) for x in a]
        if name == 'fabs': return ('f', z3.fpAbs(X[0]))
        if name == 'floor': return ('f', z3.fpRoundToIntegral(z3.RTN(), X[0]))
        if name == 'ceil': return ('f', z3.fpRoundToIntegral(z3.RTP(), X[0]))
        if name == 'trunc': return ('f', z3.fpRoundToIntegral(z3.RTZ(), X[0]))
        if name in ('round',): return ('f', z3.fpRoundToIntegral(z3.RNA(), X[0]))
        if name in ('rint', 'nearbyint'): return ('f', z3.fpRoundToIntegral(RNE, X[0]))
        if name == 'fmin': return ('f', z3.fpMin(X[0], X[1]))
        if name == 'fmax': return ('f', z3.fpMax(X[0], X[1]))
        if name == 'sqrt' and s.mode == 'fp' and False: return ('f', z3.fpSqrt(RNE, X[0]))
        r = s.uf('libm_' + name, len(a))(*X)
        st.apps.append((name, tuple(X), r))
        if s.domain_checks and s.mode in ('fp', 'fpu') and not s.in_harness(st.frames[-1]):
            # bit-precise domain check: can the argument be a non-NaN double outside the function's domain on this path?
            x0 = X[0]; bad = None
            if name in ('acos', 'asin'): bad = z3.Or(z3.fpGT(x0, z3.FPVal(1.0, F64)), z3.fpLT(x0, z3.FPVal(-1.0, F64)))
            elif name == 'sqrt': bad = z3.fpLT(x0, z3.FPVal(0.0, F64))
            elif name == 'log': bad = z3.fpLEQ(x0, z3.FPVal(0.0, F64))
            if bad is not None:
                rr, m = s.check(st, [bad])
                if rr == z3.sat: s.domain_issues.append(('%s: argument outside its domain in %s' % (name, st.frames[-1].fn.name[:80]), s.full_model(st, [bad]) or m[0], st.clone()))
        return ('f', r)
    # ---- real mode (arguments in sum-of-monomials normal form so that equal arguments are syntactically equal)
    X = [z3.simplify(s.fz(x), som=True) if not isinstance(x[1], float) else s.fz(x) for x in a]; x = X[0]
    if name == 'fabs': return ('f', z3.If(x < 0, -x, x))
    if name == 'floor': return ('f', z3.ToReal(z3.ToInt(x)))
    if name == 'ceil': return ('f', -z3.ToReal(z3.ToInt(-x)))
    if name == 'trunc': return ('f', z3.If(x >= 0, z3.ToReal(z3.ToInt(x)), -z3.ToReal(z3.ToInt(-x))))
    if name == 'round': return ('f', z3.If(x >= 0, z3.ToReal(z3.ToInt(x + z3.RealVal('1/2'))), -z3.ToReal(z3.ToInt(-x + z3.RealVal('1/2')))))
    if name == 'fmin': return ('f', z3.If(X[0] < X[1], X[0], X[1]))
    if name == 'fmax': return ('f', z3.If(X[0] > X[1], X[0], X[1]))
    if name == 'pow':
        e = a[1][1]
        if isinstance(e, float):
            if e == 2.0: return ('f', x * x)
            if e == 3.0: return ('f', x * x * x)
            if e == 4.0: return ('f', (x * x) * (x * x))
            if e == 1.0: return ('f', x)
            if e == 0.0: return ('f', 1.0)
            if e == -1.0: return ('f', 1 / x)
            if e == 0.5: return libm(s, st, 'sqrt', [a[0]])
    for (n_, args_, r_) in st.apps:           # congruence is automatic for UFs; reuse the identical application
        if n_ == name and len(args_) == len(X) and all(z3.eq(p, q) for p, q in zip(args_, X)): return ('f', r_)
    r = s.uf('libm_' + name, len(a))(*X)
    ax = []
    def use(tag, c):
        if s.libm_axioms: s.axioms_used.add(tag); ax.append(c)
    pi = z3.RealVal(repr(PI))
    if name == 'sqrt':
        use('sqrt(x)=r: r>=0 and (x>=0 -> r*r=x)', z3.And(r >= 0, z3.Implies(x >= 0, r * r == x)))
    elif name == 'exp':
        use('exp(x)>0; exp(0)=1; x>=0 -> exp(x)>=1; x<=0 -> exp(x)<=1', z3.And(r > 0, z3.Implies(x == 0, r == 1), z3.Implies(x >= 0, r >= 1), z3.Implies(x <= 0, r <= 1)))
    elif name == 'erfc':
        use('0<erfc(x)<2; erfc(0)=1; x>=0 -> erfc(x)<=1; x<=0 -> erfc(x)>=1', z3.And(r > 0, r < 2, z3.Implies(x == 0, r == 1), z3.Implies(x >= 0, r <= 1), z3.Implies(x <= 0, r >= 1)))
    elif name == 'erf':
        use('-1<erf(x)<1; erf(0)=0; sign', z3.And(r > -1, r < 1, z3.Implies(x == 0, r == 0), z3.Implies(x >= 0, r >= 0), z3.Implies(x <= 0, r <= 0)))
    elif name in ('sin', 'cos'):
        use('-1<=sin,cos<=1; sin(0)=0; cos(0)=1', z3.And(r >= -1, r <= 1, z3.Implies(x == 0, r == (0 if name == 'sin' else 1))))
        other = 'cos' if name == 'sin' else 'sin'
        for (n_, args_, r_) in st.apps:
            if n_ == other and z3.eq(args_[0], x): use('sin(x)^2+cos(x)^2=1 (same argument)', r * r + r_ * r_ == 1)
        if getattr(s, 'libm_inverse', False):
            # opt-in: sin/cos of a value that IS the result of an earlier acos / atan2 application (inverse-function contracts)
            for (n_, args_, r_) in st.apps:
                if not z3.eq(r_, x): continue
                if n_ == 'acos':
                    t = args_[0]
                    if name == 'cos': use('-1<=t<=1 -> cos(acos(t))=t', z3.Implies(z3.And(t >= -1, t <= 1), r == t))
                    else: use('-1<=t<=1 -> sin(acos(t))>=0, sin(acos(t))^2=1-t^2', z3.Implies(z3.And(t >= -1, t <= 1), z3.And(r >= 0, r * r == 1 - t * t)))
                elif n_ == 'atan2':
                    yy, xx = args_[0], args_[1]; h = z3.Real(s.fresh("hyp"))
                    use('a=atan2(y,x), h=sqrt(x^2+y^2): h*cos(a)=x, h*sin(a)=y', z3.And(h >= 0, h * h == xx * xx + yy * yy, z3.Implies(h > 0, (h * r == xx) if name == 'cos' else (h * r == yy))))
    elif name == 'acos':
        use('0<=acos(x)<=pi; acos(1)=0', z3.And(r >= 0, r <= pi, z3.Implies(x == 1, r == 0)))
    elif name == 'asin':
        use('-pi/2<=asin(x)<=pi/2; asin(0)=0', z3.And(r >= -pi/2, r <= pi/2, z3.Implies(x == 0, r == 0)))
    elif name == 'atan':
        use('-pi/2<atan(x)<pi/2; atan(0)=0', z3.And(r > -pi/2, r < pi/2, z3.Implies(x == 0, r == 0)))
    elif name == 'atan2':
        use('-pi<=atan2(y,x)<=pi', z3.And(r >= -pi, r <= pi))
    elif name == 'log':
        use('log(1)=0; x>=1 -> log(x)>=0', z3.And(z3.Implies(x == 1, r == 0), z3.Implies(x >= 1, r >= 0)))
    elif name == 'fmod':
        y = X[1]
        use('fmod(x,y)=x-n*y, |r|<|y|, sign of x', z3.And(z3.Implies(z3.And(x >= 0, y > 0), z3.And(r >= 0, r < y)), z3.Implies(z3.And(x <= 0, y > 0), z3.And(r <= 0, r > -y))))
    # monotonicity instances against earlier applications of the same function
    mono = {'exp': 1, 'sqrt': 1, 'erfc': -1, 'erf': 1, 'atan': 1, 'log': 1, 'sinh': 1, 'tanh': 1, 'cbrt': 1}.get(name)
    if mono and s.libm_mono and sum(1 for a_ in st.apps if a_[0] == name) <= 6:      # pairwise instances only while there are few applications
        for (n_, args_, r_) in st.apps:
            if n_ == name:
                y = args_[0]
                if mono > 0: use(name + ' monotone increasing (pairwise instances)', z3.And(z3.Implies(x <= y, r <= r_), z3.Implies(y <= x, r_ <= r), z3.Implies(x < y, r < r_) if name != 'sqrt' else True))
                else: use(name + ' monotone decreasing (pairwise instances)', z3.And(z3.Implies(x <= y, r >= r_), z3.Implies(y <= x, r_ >= r)))
    st.apps.append((name, tuple(X), r))
    for c in ax: s.add_pc(st, c)
    if s.domain_checks and not s.in_harness(st.frames[-1]): domain_arg(s, st, name, X)
    return ('f', r)

def domain_arg(s, st, name, X):
    x = X[0]; bad = None
    if name == 'sqrt': bad = x < 0
    elif name in ('acos', 'asin'): bad = z3.Or(x < -1, x > 1)
    elif name == 'log': bad = x <= 0
    if bad is None: return
    r, m = s.check(st, [bad])
    if r == z3.sat: s.domain_issues.append(('%s: argument outside its domain in %s' % (name, st.frames[-1].fn.name[:80]), s.full_model(st, [bad]) or m[0], st.clone()))

def finalize_axioms(s, st): pass
