"""Decode one textual LLVM-14 instruction into a tuple the executor dispatches on.

Operand descriptors:
  ('r', name)                register
  ('c', value)               constant engine value
  ('g', name)                address of global / function / alias
  ('cagg', [descr])          constant aggregate with embedded globals
  ('cgep', basety, descr, [descr])   constant getelementptr
  ('ccast', op, descr, fromty, toty) constant cast
"""
import re, struct
from llir import P, tokenize, Ty, PTR, INT, I8
from vals import *

PARAM_ATTRS = {'noundef', 'nonnull', 'signext', 'zeroext', 'nocapture', 'readonly', 'writeonly', 'noalias', 'align',
               'dereferenceable', 'dereferenceable_or_null', 'returned', 'sret', 'byval', 'immarg', 'inreg', 'nofree',
               'readnone', 'nest', 'swiftself', 'inalloca', 'preallocated', 'byref', 'elementtype'}
FMF = {'fast', 'nnan', 'ninf', 'nsz', 'arcp', 'contract', 'afn', 'reassoc'}

class Dec:
    def __init__(s, mod): s.mod = mod; s.cache = {}

    def name(s, v): return v[1:].strip('"')

    def val(s, p, ty):
        k, v = p.next(); rty = s.mod.resolve(ty) if ty.k == 'named' else ty
        if k in ('id', 'qid'):
            if v[0] == '%': return ('r', s.name(v))
            return ('g', s.name(v))
        if k == 'num':
            if rty.k == 'int': return ('c', iv(rty.a, int(v)))
            if rty.k in ('double', 'float', 'x86_fp80'): return ('c', ('f', float(v)))
        if k == 'hex':
            if rty.k in ('double', 'float'): return ('c', ('f', bits2d(int(v, 16))))
            if rty.k == 'x86_fp80' and v.startswith('0xK'):
                # 80-bit extended constant, carried as a double (long double only occurs in libstdc++'s generate_canonical scaling constants)
                bits = int(v[3:], 16); sign = -1.0 if bits >> 79 else 1.0; e = (bits >> 64) & 0x7fff; m = bits & ((1 << 64) - 1)
                if e == 0 and m == 0: return ('c', ('f', 0.0 * sign))
                return ('c', ('f', sign * (m / float(1 << 63)) * 2.0 ** (e - 16383)))
        if k == 'word':
            if v == 'null': return ('c', NULL)
            if v == 'true': return ('c', iv(1, 1))
            if v == 'false': return ('c', iv(1, 0))
            if v in ('undef', 'poison'):
                if rty.k in ('struct', 'arr', 'vec'): return ('c', s.zero_agg(rty, True))
                return ('c', UNDEF)
            if v == 'zeroinitializer': return ('c', s.zero_agg(rty))
            if v == 'getelementptr':
                p.accept('inbounds'); p.expect('('); bt = p.ty(); p.expect(',')
                pt = p.ty(); base = s.val(p, pt); idx = []
                while p.accept(','):
                    p.accept('inrange'); it = p.ty(); idx.append(s.val(p, it))
                p.expect(')'); return ('cgep', bt, base, idx)
            if v in ('bitcast', 'ptrtoint', 'inttoptr', 'addrspacecast'):
                p.expect('('); ft = p.ty(); x = s.val(p, ft); p.expect('to'); tt = p.ty(); p.expect(')')
                return ('ccast', v, x, s.mod.resolve(ft), s.mod.resolve(tt))
        if v in ('{', '<{', '[', '<'):
            close = {'{': '}', '<{': '}>', '[': ']', '<': '>'}[v]; vals = []
            if not p.accept(close):
                while True:
                    et = p.ty(); vals.append(s.val(p, et))
                    if p.accept(close): break
                    p.expect(',')
            if all(x[0] == 'c' for x in vals): return ('c', ('agg', [x[1] for x in vals]))
            return ('cagg', vals)
        if k == 'str':
            raw = v[2:-1]; out = []; i = 0
            while i < len(raw):
                if raw[i] == '\\': out.append(int(raw[i+1:i+3], 16)); i += 3
                else: out.append(ord(raw[i])); i += 1
            return ('c', ('agg', [iv(8, b) for b in out]))
        raise Unsupported('value %r %r of %r' % (k, v, ty))

    def zero_agg(s, t, undef=False):
        t = s.mod.resolve(t)
        if t.k == 'struct': return ('agg', [s.zero_agg(f, undef) for f in t.a])
        if t.k in ('arr', 'vec'): return ('agg', [s.zero_agg(t.b, undef) for _ in range(t.a)])
        if undef: return UNDEF
        if t.k == 'int': return iv(t.a, 0)
        if t.k in ('double', 'float', 'x86_fp80'): return ('f', 0.0)
        if t.k == 'ptr': return NULL
        raise Unsupported('zero of %r' % t)

    def skip_attrs(s, p):
        while p.peek()[0] == 'word' and p.peek()[1] in PARAM_ATTRS:
            w = p.next()[1]
            if w == 'align' and p.peek()[0] == 'num': p.next()
            elif p.peek()[1] == '(':
                d = 0
                while True:
                    x = p.next()[1]; d += (x == '(') - (x == ')')
                    if d == 0: break

    def tv(s, p):
        ty = p.ty(); s.skip_attrs(p)
        return ty, s.val(p, ty)

    def lab(s, p): p.expect('label'); return s.name(p.next()[1])

    def decode(s, text):
        d = s.cache.get(text)
        if d is None: d = s.cache[text] = s._decode(text)
        return d

    def _decode(s, text):
        p = P(tokenize(text), s.mod); dest = None; R = s.mod.resolve
        if p.peek(1)[1] == '=' and p.peek()[0] in ('id', 'qid'):
            dest = s.name(p.next()[1]); p.next()
        op = p.next()[1]
        if op in ('tail', 'musttail', 'notail'): op = p.next()[1]
        if op in ('add', 'sub', 'mul', 'udiv', 'sdiv', 'urem', 'srem', 'shl', 'lshr', 'ashr', 'and', 'or', 'xor'):
            while p.peek()[1] in ('nuw', 'nsw', 'exact'): p.next()
            ty = p.ty(); a = s.val(p, ty); p.expect(','); b = s.val(p, ty); return ('ibin', dest, op, a, b, R(ty))
        if op in ('fadd', 'fsub', 'fmul', 'fdiv', 'frem'):
            while p.peek()[1] in FMF: p.next()
            ty = p.ty(); a = s.val(p, ty); p.expect(','); b = s.val(p, ty); return ('fbin', dest, op, a, b, R(ty))
        if op == 'fneg':
            while p.peek()[1] in FMF: p.next()
            ty = p.ty(); a = s.val(p, ty); return ('fneg', dest, a, R(ty))
        if op == 'icmp':
            pred = p.next()[1]; ty = p.ty(); a = s.val(p, ty); p.expect(','); b = s.val(p, ty); return ('icmp', dest, pred, a, b)
        if op == 'fcmp':
            while p.peek()[1] in FMF: p.next()
            pred = p.next()[1]; ty = p.ty(); a = s.val(p, ty); p.expect(','); b = s.val(p, ty); return ('fcmp', dest, pred, a, b)
        if op == 'alloca':
            p.accept('inalloca'); ty = p.ty(); n = ('c', iv(64, 1))
            if p.accept(',') and p.at_type():
                nt = p.ty(); n = s.val(p, nt)
            return ('alloca', dest, s.mod.size(ty), n)
        if op == 'load':
            p.accept('atomic'); p.accept('volatile'); ty = p.ty(); p.expect(','); pt, ptr = s.tv(p); return ('load', dest, R(ty), ptr)
        if op == 'store':
            p.accept('atomic'); p.accept('volatile'); ty, v = s.tv(p); p.expect(','); pt, ptr = s.tv(p); return ('store', None, R(ty), v, ptr)
        if op == 'getelementptr':
            p.accept('inbounds'); bt = p.ty(); p.expect(','); pt, base = s.tv(p); idx = []
            while p.accept(','):
                if p.peek()[0] == 'meta': break
                it, x = s.tv(p); idx.append(x)
            return ('gep', dest, base, s.gep_steps(bt, idx))
        if op in ('bitcast', 'ptrtoint', 'inttoptr', 'addrspacecast'):
            ft, x = s.tv(p); p.expect('to'); tt = p.ty(); return ('cast', dest, op, x, R(ft), R(tt))
        if op in ('zext', 'sext', 'trunc'):
            ft, x = s.tv(p); p.expect('to'); tt = p.ty(); return ('iext', dest, op, x, R(tt).a)
        if op in ('sitofp', 'uitofp'):
            ft, x = s.tv(p); p.expect('to'); tt = p.ty(); return ('itofp', dest, op, x)
        if op in ('fptosi', 'fptoui'):
            ft, x = s.tv(p); p.expect('to'); tt = p.ty(); return ('fptoi', dest, op, x, R(tt).a)
        if op in ('fpext', 'fptrunc'):
            ft, x = s.tv(p); p.expect('to'); tt = p.ty(); return ('fpconv', dest, op, x)
        if op == 'select':
            while p.peek()[1] in FMF: p.next()
            ct, c = s.tv(p); p.expect(','); at, a = s.tv(p); p.expect(','); bt, b = s.tv(p); return ('select', dest, c, a, b)
        if op == 'phi':
            while p.peek()[1] in FMF: p.next()
            ty = p.ty(); inc = {}
            while True:
                p.expect('['); v = s.val(p, ty); p.expect(','); l = s.name(p.next()[1]); p.expect(']'); inc[l] = v
                if not p.accept(','): break
            return ('phi', dest, inc)
        if op == 'br':
            if p.peek()[1] == 'label': return ('jmp', None, s.lab(p))
            ct, c = s.tv(p); p.expect(','); lt = s.lab(p); p.expect(','); lf = s.lab(p); return ('br', None, c, lt, lf)
        if op == 'switch':
            ty, v = s.tv(p); p.expect(','); dflt = s.lab(p); p.expect('['); cases = []
            while not p.accept(']'):
                ct = p.ty(); cv = s.val(p, ct); p.expect(','); cases.append((cv[1][2], s.lab(p)))
            return ('switch', None, v, dflt, cases)
        if op == 'ret':
            if p.peek()[1] == 'void': return ('ret', None, None)
            ty, rv = s.tv(p); return ('ret', None, rv)
        if op == 'unreachable': return ('unreachable', None)
        if op == 'resume': return ('resume', None)
        if op == 'landingpad': return ('landingpad', dest)
        if op in ('call', 'invoke'):
            while not p.at_type():
                w_ = p.next()[1]
                if w_ in ('dereferenceable', 'dereferenceable_or_null', 'align') and p.peek()[1] == '(':
                    while p.next()[1] != ')': pass
                elif w_ == 'align' and p.peek()[0] == 'num': p.next()
            rty = p.ty()
            while p.peek()[0] == 'word' and p.peek()[1] not in ('bitcast', 'inttoptr', 'getelementptr'): p.next()
            callee = s.val(p, PTR(I8))
            p.expect('('); args = []
            if not p.accept(')'):
                while True:
                    if p.peek()[0] == 'meta' or p.peek()[1] == 'metadata':
                        while p.peek()[1] not in (',', ')'): p.next()
                        args.append(('c', UNDEF))
                    else:
                        ty, a = s.tv(p); args.append(a)
                    if p.accept(')'): break
                    p.expect(',')
            nxt = None
            if op == 'invoke':
                while p.peek()[1] != 'to': p.next()
                p.next(); nxt = s.lab(p)
            return ('call', dest, callee, args, nxt, R(rty) if rty.k != 'void' else rty)
        if op == 'extractvalue':
            ty, a = s.tv(p); idx = []
            while p.accept(','): idx.append(int(p.next()[1]))
            return ('extractvalue', dest, a, idx)
        if op == 'insertvalue':
            ty, a = s.tv(p); p.expect(','); et, e = s.tv(p); idx = []
            while p.accept(','): idx.append(int(p.next()[1]))
            return ('insertvalue', dest, a, e, idx, R(ty))
        if op == 'extractelement':
            ty, a = s.tv(p); p.expect(','); it, i = s.tv(p); return ('extractelement', dest, a, i)
        if op == 'insertelement':
            ty, a = s.tv(p); p.expect(','); et, e = s.tv(p); p.expect(','); it, i = s.tv(p); return ('insertelement', dest, a, e, i, R(ty))
        if op == 'shufflevector':
            ty, a = s.tv(p); p.expect(','); bt, b = s.tv(p); p.expect(','); mt, m = s.tv(p); return ('shufflevector', dest, a, b, m, R(ty).a)
        if op == 'freeze':
            ty, a = s.tv(p); return ('freeze', dest, a)
        if op == 'atomicrmw':
            p.accept('volatile'); kind = p.next()[1]; pt, ptr = s.tv(p); p.expect(','); vt, v = s.tv(p); return ('atomicrmw', dest, kind, ptr, v, R(vt))
        if op == 'fence': return ('nop', None)
        raise Unsupported('opcode ' + op)

    def gep_steps(s, bt, idx):
        """-> list of ('k', const_bytes) | ('s', descr, elem_size); constant parts folded"""
        steps = []; const = 0; t = bt
        for n, d in enumerate(idx):
            if n == 0: es = s.mod.size(t)
            else:
                t = s.mod.resolve(t)
                if t.k == 'struct':
                    if d[0] != 'c': raise Unsupported('symbolic struct index')
                    i = to_signed(d[1][2], d[1][1]); const += s.mod.field_offset(t, i); t = t.a[i]; continue
                if t.k in ('arr', 'vec'): es = s.mod.size(t.b); t = t.b
                else: raise Unsupported('gep into %r' % t)
            if d[0] == 'c' and isinstance(d[1][2], int): const += to_signed(d[1][2], d[1][1]) * es
            else: steps.append((d, es))
        return (const, steps)
